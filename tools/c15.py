#!/usr/bin/env python3
"""C15: `a.relative_to(b)` is a valid reference that resolves against b to a value equal to a."""
import os, sys, json, random, itertools
sys.path.insert(0, os.path.dirname(os.path.abspath(__file__)))
from vlib import *
from gen import Gen, paths_upto
import spec
from spec import segs, norm, is_abs

def classify(a, b):
    """None when (a, b) lies in the class where the round trip is claimed (C15_roundtrip_partial); else the known class"""
    A = spec.parse(a); B = spec.parse(b)
    if any(x in (b'.', b'..') for x in segs(A[2])):
        return 'K_a_dots'
    if A[0] != B[0]:
        return None
    if A[1] is not None and B[1] is not None and spec.canon(b'//' + A[1])[1] != spec.canon(b'//' + B[1])[1]:
        return None
    pa, pb = A[2], B[2]
    sa, sb = segs(pa), segs(pb)
    if (A[1] is None) != (B[1] is None):
        return 'K_auth_side'
    if is_abs(pa) != is_abs(pb) or not is_abs(pa):
        return 'K_abs_mix' if is_abs(pa) != is_abs(pb) else 'K_rel'
    if any(s in (b'.', b'..') for s in sa):
        return 'K_a_dots'
    if any(s in (b'.', b'..') for s in sb):
        return 'K_b_dots'
    if any(s == b'' for s in sa[:-1]) or any(s == b'' for s in sb[:-1]):
        return 'K_inner_empty'
    # the code strips the common prefix by comparing segments AFTER percent-decoding (strip_common), so the two classes below
    # are stated on decoded segments: `.%2E` and `%2E%2E` are the same segment there
    NA = [spec.dec(x) for x in norm(True, sa)]; NB = [spec.dec(x) for x in norm(True, sb)]
    if A[3] is None and B[3] is not None and NA == NB:
        return 'K_query_inherit'
    Bd = NB[:-1] if NB else []
    if len(NA) <= len(Bd) and Bd[:len(NA)] == NA and (not NA or NA[-1] != b''):
        return 'K_ancestor'
    return None

def main():
    R = Result('C15', 'proof')
    rnd = random.Random(R.seed)
    thorough = R.tier == 'thorough'
    R.assumptions = ['Coq kernel', 'hand-written model coq/Reference.v (relative_to, resolve) and Cmp.v (==), tied to the code by this run', 'extraction + ocamlopt', 'Rust harness',
                     'the round trip is claimed on the class described in DESIGN.md C15; outside it every failure must fall in a listed known-finding class']
    props_check(R, 'C15')
    st = setup_check(R)
    if st is None:
        return R.finish()
    cdir, harness, model = st
    known_listed = {k['id']: k for k in known_findings('C15')}
    cases = []
    SEG = ['a', 'b', 'c', 'index.html', 'x:y', '12:30', '%41:b', '_b:x', '%2E%2E', '%2e', '.%2E', 'é']   # percent-encoded dots are ordinary segments
    n = 100000 if thorough else 4000
    RESPELL = {'h': '%68', 'example.org': 'ex%61mple.org', 'u@h:80': '%75@%68:80'}    # authorities that are == but not literally equal
    for fam in ('uri', 'iri'):
        g = Gen(random.Random(rnd.random()), fam)
        for i in range(n // 2):
            sch = g.pick(['http', 's'])
            au = g.pick([None, 'h', 'h', 'example.org', 'u@h:80'])
            def mk(shared):
                k = g.r.random()
                if k < 0.12:
                    segl = [g.pick(SEG + ['', '.', '..']) for _ in range(g.pick([0, 1, 2, 3]))]
                else:
                    segl = shared + [g.pick(SEG[:11] if fam == 'uri' else SEG) for _ in range(g.pick([0, 0, 1, 1, 2, 3]))]
                    if g.r.random() < 0.3: segl = segl + ['']
                p = '/' + '/'.join(segl) if (au is not None or g.r.random() < 0.85) else '/'.join(segl)
                if au is None and p.startswith('//'): p = '/x' + p[1:]
                if g.r.random() < 0.06: p = ''
                if au is None and p == '' : p = '/'
                q = g.pick([None, None, 'q', '', 'a:b', 'x=1:2/3?4']) ; f = g.pick([None, None, 'f', 'sec:1', 'a/b:c?d'])   # delimiters that are legal inside query / fragment
                return {'scheme': sch if g.r.random() < 0.95 else 'other', 'authority': (au if g.r.random() < 0.85 else RESPELL.get(au, au)) if g.r.random() < 0.9 else g.pick([None, 'k'] + ([au + '.uk', au + 'x', au[:-1]] if au and '@' not in au and ':' not in au else [])), 'path': p, 'query': q, 'fragment': f}
            shared = [g.pick(SEG[:3]) for _ in range(g.pick([0, 1, 2, 3]))]
            pa, pb = mk(shared), mk(shared)
            for p in (pa, pb):
                if p['authority'] is None and p['path'].startswith('//'): p['path'] = '/x' + p['path'][1:]
                if p['authority'] is not None and p['path'] and not p['path'].startswith('/'): p['path'] = '/' + p['path']
            cases.append((fam, Gen.compose(pa).encode(), Gen.compose(pb).encode()))
    # exhaustive block: shared prefixes of every length, trailing slashes
    P = ['/', '/a', '/a/', '/a/b', '/a/b/', '/a/b/c', '/a/c', '/b', '/a/b/c/d', '/a//b', '/a/./b', '/a/../b', '']
    for x in P:
        for y in P:
            for q in ('', '?q', '#f'):
                cases.append(('uri', ('http://h' + x + q).encode(), ('http://h' + y).encode()))
                if x and y:
                    cases.append(('uri', ('s:' + x + q).encode(), ('s:' + y).encode()))
    # one authority a textual prefix of the other, with empty and root paths on either side
    for ha, hb in (('example.org.uk', 'example.org'), ('example.org', 'example.org.uk'), ('hh', 'h'), ('h', 'hh'), ('h:80', 'h'), ('h', 'h:80')):
        for x in ('', '/', '/a/b', '/a/b/'):
            for y in ('', '/', '/a', '/a/'):
                for q in ('', '?q'):
                    cases.append(('uri', ('http://' + ha + x + q).encode(), ('http://' + hb + y).encode()))
                    cases.append(('iri', ('http://' + ha + x + q).encode(), ('http://' + hb + y).encode()))
    lines = ['relto\t%s\t%s\t%s' % (fam, hexs(a), hexs(b)) for fam, a, b in cases]
    impl = run_lines(harness, lines)
    mod = run_lines(model, lines)
    nviol = 0; diffs = 0; classes = set(); known_seen = {}; clean_ok = 0
    for (fam, a, b), line, io, mo in zip(cases, lines, impl, mod):
        if io.startswith('ERR'):
            continue
        pr = []; kn = None
        cl = classify(a, b)
        f = io.split('\t')
        if io == 'PANIC' or len(f) < 6:
            pr.append('relative_to panicked')
        else:
            rel = unhex(f[0])
            bad = []
            if f[1] != '1': bad.append('%r is not a valid reference' % rel)
            if f[2] == 'PANIC' or f[3] == 'P': bad.append('resolving / comparing back panicked')
            elif f[3] != '1': bad.append('%r resolved against b gives %r, which is not equal to a' % (rel, unhex(f[2])))
            if f[4] != '1': pr.append('Iri/Uri and IriRef/UriRef entry points disagree')
            if f[5] != '1': pr.append('a or b was modified')
            if bad:
                if cl is None:
                    pr += bad
                else:
                    kn = cl
            elif cl is None:
                clean_ok += 1
        classes.add((fam, cl, spec.parse(a)[3] is None, spec.parse(a)[4] is None, min(len(segs(spec.parse(a)[2])), 4), min(len(segs(spec.parse(b)[2])), 4)))
        mf0 = mo.split('\t')
        if kn and not pr and len(f) >= 4 and (len(mf0) < 4 or (f[0], f[2], f[3]) != (mf0[0], mf0[2], mf0[3])):
            pr.append('fails to round-trip inside the recorded class %s, but NOT in the recorded way (the model carries the recorded behaviour): model %s' % (kn, mo[:200]))
        if kn and not pr:
            known_seen[kn] = known_seen.get(kn, 0) + 1
            R.extra.setdefault('known_witnesses', {}).setdefault(kn, [a.decode('utf-8', 'replace'), b.decode('utf-8', 'replace'), unhex(f[0]).decode('utf-8', 'replace'), unhex(f[2]).decode('utf-8', 'replace') if f[2] != 'PANIC' else 'PANIC'])
            if kn in known_listed:
                R.known_finding(known_listed[kn]['what'])
            else:
                pr.append('deviation of class %s which is not listed in known_findings.json' % kn)
        if pr:
            nviol += 1
            if nviol <= 300:
                R.violation({'kind': 'relativisation does not round-trip through resolution', 'family': fam, 'a': a.decode('utf-8', 'replace'), 'b': b.decode('utf-8', 'replace'),
                             'relative': (unhex(f[0]).decode('utf-8', 'replace') if len(f) > 1 else io), 'problems': pr[:4], 'implementation': io[:500], 'model': mo[:300],
                             'replay': "printf '%s\\n' | %s" % (line.replace('\t', '\\t'), harness)}, no_input=False)
        mf = mo.split('\t')
        if len(f) >= 4 and (len(mf) < 4 or (f[0], f[2], f[3]) != (mf[0], mf[2], mf[3])):
            diffs += 1
            if diffs <= 5:
                R.extra.setdefault('correspondence_diffs', []).append({'case': line, 'a': a.decode('utf-8', 'replace'), 'b': b.decode('utf-8', 'replace'), 'impl': io[:400], 'model': mo[:400]})
    if diffs and not R.violations:
        R.violation({'kind': 'correspondence broken: the relative_to model and the implementation disagree, but every implementation output satisfied the oracle',
                     'first': R.extra.get('correspondence_diffs', [])[:3]}, no_input=True)
    R.cov['evaluations'] = len(cases)
    R.cov['distinct_nontrivial'] = len(classes)
    R.cov['rule'] = ('pairs (a, b) of valid URIs/IRIs: same or different scheme and authority, absolute paths with shared prefixes of every length, trailing slashes, empty paths, '
                     'empty and dot segments, queries and fragments; an exhaustive 13 x 13 x 3 block; the reference is re-validated, resolved against b by the implementation and '
                     'compared with a by the implementation\'s ==; distinct_nontrivial = distinct (family, class, query?, fragment?, #segments a, #segments b)')
    R.cov['samples'] = [{'a': c[1].decode('utf-8', 'replace'), 'b': c[2].decode('utf-8', 'replace'), 'relative_to': (unhex(io.split('\t')[0]).decode('utf-8', 'replace') if '\t' in io else io)}
                        for c, io in list(zip(cases, impl))[::max(1, len(cases) // 8)]][:8]
    R.cov['trusted_base'] = R.assumptions
    R.extra.update({'model_vs_impl_differences': diffs, 'known_classes_seen': known_seen, 'round_trips_held_in_claimed_class': clean_ok, 'tree': os.path.basename(cdir)})
    return R.finish()

if __name__ == '__main__':
    sys.exit(main())
