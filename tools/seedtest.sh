#!/bin/sh
# usage: tools/seedtest.sh <patch> <property id>...   applies a seeded change to /repo, runs the checks, reverts
patch="$1"; shift
cd /repo && git apply "$patch" || exit 2
cd /verif
for id in "$@"; do
  out=$(./check "$id" 2>&1); rc=$?
  echo "== $id rc=$rc"; echo "$out" | grep -E "VIOLATION|KNOWN-FINDING" | head -5
done
cd /repo && git checkout -- . && git status --short | head -3
