#!/usr/bin/env python3
"""C10: path editing through one handle has list semantics and touches nothing but the path."""
import os, sys, json, random, itertools
sys.path.insert(0, os.path.dirname(os.path.abspath(__file__)))
from vlib import *
from gen import Gen, small_refs
import spec
from spec import segs, nodot, norm, is_abs

def H(x):
    return '~' if x is None else hexs(x)

def noempty(l):
    return [s for s in l if s != b'']

def step_problems(op, arg, v, v2, fa):
    """law for one edit: v = handle view before, v2 = after.  Returns (problems, known-class or None)"""
    pr = []; known = None
    L = nodot(segs(v)); L2 = nodot(segs(v2)); raw = segs(v)
    ab = is_abs(v)
    # absoluteness
    if fa:
        if not (v2 == b'' or v2.startswith(b'/')):
            pr.append('path after an authority became relative: %r' % v2)
    elif is_abs(v2) != ab:
        pr.append('absoluteness changed: %r -> %r' % (v, v2))
    if op == 'pp':
        if L2 != nodot(raw + [arg]):
            pr.append('push(%r): segments %r -> %r' % (arg, L, L2))
    elif op == 'po':
        def popl(M):
            if (not M and not ab and not (fa and v == b'')) or (M and M[-1] == b'..'):
                return [M + [b'..']]
            if not M:
                return [[], [b'..']] if (fa and v == b'') else [[]]
            return [M[:-1]]
        cands = popl(L) + [nodot(x) for x in popl(raw)]          # reading on the "."-free list and on the raw list (I2)
        if L2 not in cands:
            if ab and L and L[:-1] == [b''] and L2 == []:
                known = 'K_pop_dslash'
            else:
                pr.append('pop: segments %r -> %r (expected one of %r)' % (L, L2, cands))
    elif op == 'pc':
        if L2 != []:
            pr.append('clear left segments %r' % L2)
    elif op in ('ps', 'pa'):
        xs = [arg] if op == 'ps' else segs(arg)
        def run(M, g11, dslash, i9):
            """directory semantics on the list M; toggles = the recorded deviations of the library"""
            opn = False
            for x in xs:
                if x == b'.':
                    opn = True
                elif x == b'..':
                    opn = True
                    if (not M and (not ab or i9) and not (fa and v == b'' and not i9)) or (M and M[-1] == b'..'):
                        M = M + [b'..']
                    elif M:
                        M = M[:-1]
                        if dslash and ab and M == [b'']: M = []
                else:
                    opn = False
                    if not (x == b'' and not M and g11):
                        M = M + [x]
            if opn and M:
                M = M + [b'']
            return M
        import itertools as _it
        strict = [run(list(L), False, False, i9) for i9 in ((False, True) if (fa and v == b'') else (False,))]
        if L2 not in strict:
            expl = None
            for rawread, g11, dslash in sorted(_it.product((False, True), repeat=3), key=sum):
                for i9 in ((False, True) if (fa and v == b'') else (False,)):
                    if L2 == nodot(run(list(raw if rawread else L), g11, dslash, i9)):
                        expl = (rawread, g11, dslash); break
                if expl: break
            if expl and any(expl):
                known = 'K_dot_only' if expl[0] else ('K_G11' if expl[1] else 'K_pop_dslash')
            else:
                pr.append('%s(%r): segments %r -> %r, directory semantics give %r' % ('symbolic_push' if op == 'ps' else 'symbolic_append', arg, L, L2, strict[0]))
    elif op == 'pn':
        want = norm(ab, raw)
        if noempty(L2) != noempty(want):
            pr.append('normalize: %r -> %r, expected %r' % (raw, L2, want))
    # a "." may only be inserted as a shield: first segment, in front of an empty or colon-bearing segment
    s2 = segs(v2)
    dots_before = sum(1 for s in raw if s == b'.')
    dots_after = sum(1 for s in s2 if s == b'.')
    allowed = dots_before + (1 if op == 'pp' and arg == b'.' else 0)
    if dots_after > allowed:
        if not (s2 and s2[0] == b'.' and len(s2) >= 2 and (s2[1] == b'' or b':' in s2[1]) and dots_after <= allowed + 1):
            pr.append('a "." segment was inserted where it is not a shield: %r -> %r' % (v, v2))
    return pr, known

def main():
    R = Result('C10', 'proof')
    rnd = random.Random(R.seed)
    thorough = R.tier == 'thorough'
    R.assumptions = ['Coq kernel', 'hand-written L0 model coq/PathMut.v of common/path_mut.rs (and L1 model Push.v for the proved push law), tied to the code by this run',
                     'extraction + ocamlopt', 'Rust harness', 'interpretation I2/I9 of DESIGN.md section 8 (laws on segment lists with "." removed)']
    props_check(R, 'C10')
    st = setup_check(R)
    if st is None:
        return R.finish()
    cdir, harness, model = st
    known_listed = {k['id']: k for k in known_findings('C10')}
    SEGS = ['', '.', '..', 'a', 'b:c', ':', 'x', '%2F', 'é']
    def mkops(g, n):
        ops = []
        for _ in range(n):
            k = g.pick(['pp', 'pp', 'pp', 'po', 'po', 'pc', 'ps', 'ps', 'pa', 'pn'])
            if k in ('pp', 'ps'):
                s = g.pick(SEGS) if g.r.random() < 0.9 else g.segment()
                if g.fam == 'uri' and any(ord(c) > 127 for c in s): s = 'z'
                ops.append((k, s.encode()))
            elif k == 'pa':
                ops.append((k, g.pick(['', 'a/b', '../x', './', '..', 'a//b', 'b:c/d', '../../', '.', 'x/']).encode()))
            else:
                ops.append((k, None))
        return ops
    cases = []
    n = 100000 if thorough else 3000
    for fam in ('uri', 'iri'):
        g = Gen(random.Random(rnd.random()), fam)
        for i in range(n // 2):
            r = g.r.random()
            p = g.parts()
            if r < 0.7:
                segl = [g.pick(SEGS[:7]) for _ in range(g.pick([0, 0, 1, 1, 2, 3]))]
                path = ('/' if p['authority'] is not None or g.r.random() < 0.5 else '') + '/'.join(segl)
                if p['authority'] is None and path.startswith('//'): path = '/.' + path
                if p['authority'] is None and p['scheme'] is None and ':' in path.split('/')[0]: path = './' + path
                if p['authority'] is not None and path == '/' and g.r.random() < 0.5: path = ''
                p['path'] = path
            if g.r.random() < 0.25:
                cases.append((fam[0] + 'path', p['path'].encode(), p, mkops(g, g.pick([1, 2, 3, 4]))))
            else:
                kind = fam + ('' if p['scheme'] is not None and g.r.random() < 0.4 else 'ref')
                cases.append((kind, Gen.compose(p).encode(), p, mkops(g, g.pick([1, 2, 2, 3, 4, 6]))))
    if thorough:
        OPS = [('pp', b''), ('pp', b'a'), ('pp', b'b:c'), ('pp', b'..'), ('po', None), ('pc', None), ('ps', b'..'), ('ps', b'.'), ('ps', b''), ('ps', b'x'), ('pn', None)]
        for s in small_refs(nmax=2, queries=(None, 'q'), frags=(None,)):
            P = spec.parse(s.encode())
            pd = {'scheme': P[0], 'authority': P[1], 'path': P[2].decode(), 'query': P[3], 'fragment': P[4]}
            for ops in itertools.product(OPS, repeat=2):
                cases.append(('uriref', s.encode(), pd, list(ops)))
    lines = []
    for kind, text, p, ops in cases:
        lines.append('pathops\t%s\t%s\t%s' % (kind, hexs(text), '\t'.join(k if a is None else '%s:%s' % (k, hexs(a)) for k, a in ops)))
    fresh = [l.replace('pathops', 'ops', 1) for l in lines]
    impl = run_lines(harness, lines)
    impl_fresh = run_lines(harness, [l for l, c in zip(fresh, cases) if not c[0].endswith('path')])
    fresh_it = iter(impl_fresh)
    mod = run_lines(model, lines)
    nviol = 0; diffs = 0; classes = set(); known_seen = {}
    for (kind, text, p, ops), line, io, mo in zip(cases, lines, impl, mod):
        standalone = kind.endswith('path')
        fo = None if standalone else next(fresh_it)
        if io.startswith('ERR'):
            continue
        pr = []; known = None
        secs = io.split('\t|\t')
        fa = True if standalone else (p['authority'] is not None)
        fa_law = (not standalone) and p['authority'] is not None
        if 'PANIC' in io or len(secs) != 2:
            pr.append('panic while editing the path')
        else:
            views = secs[0].split('\t')
            v = p['path'].encode() if not standalone else text
            for (k, a), view in zip(ops, views):
                v2 = unhex(view.split('/')[0])
                sg = [unhex(x) for x in view.split('/')[1].split(',')] if view.split('/')[1] else []
                if sg != segs(v2):
                    pr.append('segments() of the handle view %r are not its /-split' % v2)
                q, kn = step_problems(k, a, v, v2, fa_law)
                pr += q; known = known or kn
                v = v2
            f = secs[1].split('\t')
            if f[-1 if standalone else 1] != '1':
                pr.append('result does not re-parse')
            if not standalone:
                final = unhex(f[0])
                g_ = lambda x: None if x == '~' else unhex(x)
                got = (g_(f[2]), g_(f[3]), unhex(f[4]), g_(f[5]), g_(f[6]))
                E_ = lambda x: None if x is None else (x if isinstance(x, bytes) else x.encode())
                if (got[0], got[1], got[3], got[4]) != (E_(p['scheme']), E_(p['authority']), E_(p['query']), E_(p['fragment'])):
                    pr.append('scheme/authority/query/fragment changed: %r' % (got,))
                if got[2] != v:
                    pr.append('path() of the buffer %r is not what the handle viewed last %r' % (got[2], v))
                if spec.parse(final) != got:
                    pr.append('result is ambiguous: accessors disagree with RFC 3986 appendix B on %r' % final)
                # one handle vs fresh handles
                if 'PANIC' not in fo:
                    ffinal = fo.split('\t|\t')[-1].split('\t')[0]
                    if ffinal != f[0]:
                        pr.append('edits through ONE handle give %r, the same edits through fresh handles give %r' % (final, unhex(ffinal)))
        classes.add((kind, tuple(k for k, _ in ops)[:3], p['path'][:2] if isinstance(p['path'], str) else '', p.get('authority') is None, p.get('scheme') is None))
        strip = lambda s: [x for i, x in enumerate(s.split('\t')) if x not in ('0', '1', '-') or i == 0]
        if known and not pr and strip(io) != strip(mo):
            pr.append('deviates inside the recorded class %s, but NOT in the recorded way (the model carries the recorded behaviour)' % known)
        if known and not pr:
            known_seen[known] = known_seen.get(known, 0) + 1
            if known in known_listed:
                R.known_finding(known_listed[known]['what'])
            else:
                pr.append('deviation of class %s which is not listed in known_findings.json' % known)
        if pr:
            nviol += 1
            if nviol <= 300:
                R.violation({'kind': 'path edit violates list semantics / frame / handle coherence', 'type': kind, 'buffer': text.decode('utf-8', 'replace'),
                             'calls': [[k, None if a is None else a.decode('utf-8', 'replace')] for k, a in ops], 'problems': pr[:4], 'implementation': io[:1500], 'model': mo[:1500],
                             'replay': "printf '%s\\n' | %s" % (line.replace('\t', '\\t'), harness)}, no_input=False)
        strip = lambda s: [x for i, x in enumerate(s.split('\t')) if x not in ('0', '1', '-') or i == 0]
        if strip(io) != strip(mo):
            diffs += 1
            if diffs <= 5:
                R.extra.setdefault('correspondence_diffs', []).append({'case': line, 'impl': io[:1000], 'model': mo[:1000]})
    if diffs and not R.violations:
        R.violation({'kind': 'correspondence broken: the PathMut model and the implementation disagree, but every implementation output satisfied the laws',
                     'first': R.extra.get('correspondence_diffs', [])[:3]}, no_input=True)
    R.cov['evaluations'] = len(cases)
    R.cov['distinct_nontrivial'] = len(classes)
    R.cov['rule'] = ('valid stand-alone paths and references (with/without scheme and authority, empty and non-empty paths, dot/empty/colon segments) x sequences of 1-6 '
                     'push/pop/clear/symbolic_push/symbolic_append/normalize through ONE handle; the handle view and its segments() are read after every edit, the enclosing buffer '
                     'afterwards; the same edits are replayed through fresh handles; distinct_nontrivial = distinct (type, first three edits, path head, authority?, scheme?)')
    R.cov['samples'] = [{'case': l.replace('\t', ' ')[:200], 'impl': io.replace('\t', ' ')[:200]} for l, io in list(zip(lines, impl))[::max(1, len(lines) // 6)]][:6]
    R.cov['trusted_base'] = R.assumptions
    R.extra.update({'model_vs_impl_differences': diffs, 'known_classes_seen': known_seen, 'tree': os.path.basename(cdir)})
    return R.finish()

if __name__ == '__main__':
    sys.exit(main())
