#!/usr/bin/env python3
"""C19: percent-decoded views of components are total and faithful."""
import os, sys, json, random, itertools
sys.path.insert(0, os.path.dirname(os.path.abspath(__file__)))
from vlib import *
from gen import Gen
import spec
import c01

ESC = ['%41', '%2F', '%2f', '%00', '%7E', '%C3%A9', '%c3%a9', '%E2%82%AC', '%F0%9F%98%80',            # well-formed
       '%80', '%BF', '%C3', '%E2%82', '%F0%9F%98', '%C0%AF', '%E0%80%AF', '%ED%A0%80', '%ED%BF%BF',       # lone continuation, truncated, overlong, surrogates
       '%F4%90%80%80', '%F5', '%FF', '%FE', '%C3%28', '%E2%28%A1']                                      # > U+10FFFF, invalid lead, bad continuation

def comp_values(g, comp, fam):
    out = []
    base = {'segment': ['', 'a', 'a.b', "!$&'()*+,;=", ':@'], 'userinfo': ['', 'u', 'u:p'], 'host': ['', 'h', 'example.org'],
            'query': ['', 'q=1', '/?'], 'fragment': ['', 'f', '/?']}[comp]
    for b in base:
        out.append(b)
        for e in ESC:
            out += [e + b, b + e, b[:1] + e + b[1:]]
    for e1, e2 in itertools.product(ESC[:12], repeat=2):
        out.append(e1 + e2)
    if fam == 'iri':
        out += ['é', 'é%C3%A9', '%C3é', '日本%E6%97%A5', '\U0001f600%F0%9F%98%80', 'é%FF']
    return out

def main():
    R = Result('C19', 'proof')
    rnd = random.Random(R.seed)
    thorough = R.tier == 'thorough'
    R.assumptions = ['Coq kernel', 'model Cmp.dec of pct_str::Bytes (the octet view), tied to the code by this run', 'the view type PctStr and its chars()/len()/decode()/== belong to the '
                     'external crate pct-str 2.0.0 + utf8-decode 1.0.1 (not part of the repository)', 'strict UTF-8 = Python codec', 'Rust harness']
    props_check(R, 'C19')
    st = setup_check(R)
    if st is None:
        return R.finish()
    cdir, harness, model = st
    known_listed = {k['id']: k for k in known_findings('C19')}
    lines = []; meta = []
    for fam in ('uri', 'iri'):
        g = Gen(random.Random(rnd.random()), fam)
        for comp in ('segment', 'userinfo', 'host', 'query', 'fragment'):
            for v in comp_values(g, comp, fam):
                lines.append('pct\t%s\t%s\t%s' % (fam, comp, hexs(v))); meta.append(('pct', fam, comp, v.encode()))
        for _ in range(30000 if thorough else 1200):
            p = g.parts()
            if g.r.random() < 0.5:
                p['path'] = ('/' if p['authority'] is not None or g.r.random() < 0.5 else '') + '/'.join(g.pick(ESC + ['a', '', 'b:c', 'x']) + g.pick(['', 'z']) for _ in range(g.pick([1, 2, 3])))
                if p['authority'] is None and p['path'].startswith('//'): p['path'] = '/a' + p['path'][1:]
                if p['authority'] is None and p['scheme'] is None and ':' in p['path'].split('/')[0]: p['path'] = './' + p['path']
            if g.r.random() < 0.3 and p['query'] is not None: p['query'] += g.pick(ESC) + '?x=' + g.pick(ESC)
            kind = fam + ('' if p['scheme'] is not None and g.r.random() < 0.4 else 'ref')
            lines.append('refpct\t%s\t%s' % (kind, hexs(Gen.compose(p)))); meta.append(('refpct', fam, kind, Gen.compose(p).encode()))
    # values that the validator OF THE CURRENT TREE accepts (walks through the translated automata, see C01), biased towards '%':
    # "every valid component value" means every value the constructors let in
    if c01.ensure_gendfa(R, cdir):
        dfas = json.load(open(os.path.join(cdir, 'dfa.json')))
        DN = {'segment': 'path_segment', 'userinfo': 'user_info', 'host': 'host', 'query': 'query', 'fragment': 'fragment'}
        for fam in ('uri', 'iri'):
            for comp, dn in DN.items():
                d = dfas.get('%s_%s' % (fam, dn))
                if d is None:
                    continue
                seen = set()
                for b in c01.sample_strings(d, random.Random(rnd.random()), 4500 if thorough else 250):
                    try:
                        t = b.decode('utf-8')
                    except UnicodeDecodeError:
                        continue
                    tk = c01.tokens_of(d, b)
                    if tk is None or not c01.dfa_run(d, tk) or t in seen or any(0xD800 <= ord(ch) <= 0xDFFF for ch in t):
                        continue
                    seen.add(t)
                    if '%' in t or len(seen) % 4 == 0:
                        lines.append('pct\t%s\t%s\t%s' % (fam, comp, hexs(t))); meta.append(('pct', fam, comp, t.encode()))
    impl = run_lines(harness, lines)
    plines = [l for l in lines if l.startswith('pct')]
    mod = dict(zip(plines, run_lines(model, plines)))
    nviol = 0; diffs = 0; classes = set(); known_seen = 0
    def judge(raw, by, ch, pr, where):
        """raw = component text; by/ch = hex tokens of bytes()/chars()"""
        d = spec.dec(raw)
        kn = False
        if by == 'PANIC': pr.append('%s: bytes() panicked on %r' % (where, raw))
        elif unhex(by) != d: pr.append('%s: decoded octets of %r are %r, expected %r' % (where, raw, unhex(by), d))
        if spec.strict_utf8(d):
            if ch == 'PANIC': pr.append('%s: chars() panicked although the octets %r are well-formed UTF-8' % (where, d))
            elif unhex(ch) != d: pr.append('%s: chars() of %r give %r, expected the UTF-8 text %r' % (where, raw, unhex(ch), d))
        else:
            kn = True      # ill-formed octets: the view type panics or decodes leniently (recorded finding)
        return kn
    for (op, fam, x, v), line, io in zip(meta, lines, impl):
        if io.startswith('ERR'):
            continue
        pr = []; kn = False
        f = io.split('\t')
        if op == 'pct':
            if io.startswith('PANIC'): pr.append('obtaining the view panicked')
            else:
                kn = judge(v, f[0], f[1], pr, x)
                d = spec.dec(v)
                if spec.strict_utf8(d):
                    if f[2] != str(len(d.decode('utf-8'))): pr.append('len() = %s, the text has %d characters' % (f[2], len(d.decode('utf-8'))))
                    if f[3] == 'PANIC' or unhex(f[3]) != d: pr.append('decode() = %s' % f[3])
                    if f[4] != '1': pr.append('== with its own text is %s' % f[4])
                    if f[5] != '1': pr.append('== with itself is %s' % f[5])
                if len(f) > 6 and f[6] != '~' and f[6] != hexs(v):
                    pr.append('the owned route into_pct_string() %s' % ('panicked' if f[6] == 'PANIC' else 'changed the text to %r' % unhex(f[6])))
                mo = mod[line]
                if mo != f[0]:
                    diffs += 1
                    if diffs <= 5: R.extra.setdefault('correspondence_diffs', []).append({'case': line, 'impl': io[:200], 'model': mo[:200]})
            classes.add((op, fam, x, spec.strict_utf8(spec.dec(v)), b'%' in v, any(c > 127 for c in v)))
        elif len(f) < 5:
            pr.append('obtaining the percent-decoded views of the components panicked or returned nothing: %s' % io[:100])
            classes.add((op, x, 'panic'))
        else:
            P = spec.parse(v)
            def views(tok): return tok.split('/') if tok != '~' else None
            au = P[1]
            ui, ho, po = spec.split_auth(au) if au is not None else (None, None, None)
            exp = [ui, ho, None, P[3], P[4]]
            for name, want, tok in (('user info', ui, f[0]), ('host', ho, f[1]), ('query', P[3], f[3]), ('fragment', P[4], f[4])):
                if (want is None) != (tok == '~'): pr.append('%s view present/absent mismatch' % name)
                elif want is not None:
                    b_, c_ = tok.split('/'); kn |= judge(want, b_, c_, pr, name)
            segs = spec.segs(P[2]); toks = f[2].split(',') if f[2] else []
            if len(toks) != len(segs): pr.append('%d segment views for %d segments' % (len(toks), len(segs)))
            else:
                for sg, tok in zip(segs, toks):
                    b_, c_ = tok.split('/'); kn |= judge(sg, b_, c_, pr, 'segment')
            classes.add((op, x, au is None, P[3] is None, b'%' in v))
        if kn and not pr:
            known_seen += 1
            if 'K_pct_view' in known_listed: R.known_finding(known_listed['K_pct_view']['what'])
            else: pr.append('deviation of class K_pct_view which is not listed in known_findings.json')
        if pr:
            nviol += 1
            if nviol <= 300:
                R.violation({'kind': 'percent-decoded view is not total / not faithful', 'op': op, 'family': fam, 'component_or_type': x, 'input': v.decode('utf-8', 'replace'),
                             'problems': pr[:4], 'implementation': io[:400], 'replay': "printf '%s\\n' | %s" % (line.replace('\t', '\\t'), harness)}, no_input=False)
    if diffs and not R.violations:
        R.violation({'kind': 'correspondence broken: Cmp.dec and the octet view disagree, but the oracle held', 'first': R.extra.get('correspondence_diffs', [])[:3]}, no_input=True)
    R.cov['evaluations'] = len(lines)
    R.cov['distinct_nontrivial'] = len(classes)
    R.cov['rule'] = ('every component type x every %XX pattern of the property text (well-formed multi-byte split over escapes, lone continuation and lead bytes, truncated, overlong, '
                     'encoded surrogates, > F4, mixed with literal non-ASCII) at the start/middle/end of a base value, all ordered pairs of 12 patterns; views obtained directly and '
                     'through the accessors of generated references (user info, host, every segment, query, fragment); distinct_nontrivial = distinct (op, family, component, strict UTF-8?, escapes?, non-ASCII?)')
    R.cov['samples'] = [{'case': l.replace('\t', ' ')[:120], 'impl': io.replace('\t', ' ')[:120]} for l, io in list(zip(lines, impl))[::max(1, len(lines) // 6)]][:6]
    R.cov['trusted_base'] = R.assumptions
    R.extra.update({'model_vs_impl_differences': diffs, 'ill_formed_octet_views_met(known finding)': known_seen, 'tree': os.path.basename(cdir)})
    return R.finish()

if __name__ == '__main__':
    sys.exit(main())
