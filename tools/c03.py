#!/usr/bin/env python3
"""C03: user_info/host/port accessors and parts() of an authority are the RFC 3986 section 3.2 decomposition."""
import os, sys, json, random
sys.path.insert(0, os.path.dirname(os.path.abspath(__file__)))
from vlib import *
from gen import Gen
import c01

def bl(s):
    return len(s.encode('utf-8'))

def expected(a, off=0):
    f = lambda lo, hi: '%d:%d' % (lo + off, hi + off)
    u = bl(a['userinfo']) + 1 if a['userinfo'] is not None else 0
    h = u + bl(a['host'])
    return [f(0, u - 1) if a['userinfo'] is not None else '~', f(u, h), f(h + 1, h + 1 + bl(a['port'])) if a['port'] is not None else '~']

def host_kind(h):
    if h == '': return 'empty'
    if h.startswith('[v') or h.startswith('[V'): return 'ipvfuture'
    if h.startswith('['): return 'ipv6'
    if all(c in '0123456789.' for c in h): return 'ipv4-like'
    if '%' in h: return 'pct'
    if any(ord(c) > 127 for c in h): return 'non-ascii'
    return 'reg-name'

def main():
    R = Result('C03', 'proof')
    rnd = random.Random(R.seed)
    thorough = R.tier == 'thorough'
    R.assumptions = ['Coq kernel + vm_compute', 'hand-written model coq/Auth.v, AuthMut.v(find_port) of the authority scanners of common/parse.rs, tied to the code by this run',
                     'extraction (ExtrOcamlBasic) + ocamlopt', 'Rust harness']
    props_check(R, 'C03')
    st = setup_check(R)
    if st is None:
        return R.finish()
    cdir, harness, model = st
    cases = []  # (line, expected or None, bytes, class)
    n = 200000 if thorough else 8000
    for fam in ('uri', 'iri'):
        g = Gen(random.Random(rnd.random()), fam)
        for i in range(n // 2):
            a = g.authority_parts()
            text = Gen.acompose(a)
            cls = (fam, None if a['userinfo'] is None else ('empty' if a['userinfo'] == '' else 'colon' if ':' in a['userinfo'] else 'plain'),
                   host_kind(a['host']), None if a['port'] is None else (a['port'] == ''))
            if i % 3:
                cases.append(('auth\t%s\t%s' % (fam, hexs(text)), expected(a), text.encode(), cls + ('standalone',)))
            else:
                pre = g.pick(['//', 's://', 'http://'])
                post = g.path('abempty') + g.pick(['', '?q', '#f', '?q@x:1#f:2@y'])
                whole = pre + text + post
                kind = fam + ('ref' if pre == '//' or g.r.random() < 0.5 else '')
                cases.append(('refauth\t%s\t%s' % (kind, hexs(whole)), expected(a, bl(pre)) + ['1'], whole.encode(), cls + ('embedded',)))
    if thorough:
        uis = [None, '', 'u', 'u:p', ':']
        hosts = ['', 'h', 'a.b', '1.2.3.4', '1.2.3.256', '[::]', '[::1]', '[1:2:3:4:5:6:7:8]', '[v1.a:b]', '[::ffff:1.2.3.4]', '%5B', "a!$&'()*+,;=b"]
        ports = [None, '', '0', '80', '00000000000000000080']
        for u in uis:
            for h in hosts:
                for p in ports:
                    a = {'userinfo': u, 'host': h, 'port': p}
                    for fam in ('uri', 'iri'):
                        cases.append(('auth\t%s\t%s' % (fam, hexs(Gen.acompose(a))), expected(a), Gen.acompose(a).encode(), (fam, 'exhaustive', u, h, p)))
    dfas = json.load(open(os.path.join(cdir, 'dfa.json')))
    for t, fam in (('uri_authority', 'uri'), ('iri_authority', 'iri')):
        for b in c01.sample_strings(dfas[t], random.Random(rnd.random()), 30000 if thorough else 1500):
            tk = c01.tokens_of(dfas[t], b)
            if tk is not None and c01.dfa_run(dfas[t], tk):
                cases.append(('auth\t%s\t%s' % (fam, hexs(b)), None, b, (fam, 'walk', b'@' in b, b'[' in b, b':' in b)))
    lines = [c[0] for c in cases]
    impl = run_lines(harness, lines)
    mlines = [l for l in lines if l.startswith('auth')]
    mod = dict(zip(mlines, run_lines(model, mlines)))
    nviol = 0; diffs = 0; classes = set()
    for (line, exp, b, cls), io in zip(cases, impl):
        classes.add(cls)
        problems = []
        f = io.split('\t')
        if io in ('PANIC', 'ERR') or len(f) < 4:
            problems.append('accessor panicked or valid authority rejected: ' + io)
        elif line.startswith('refauth'):
            if f[:4] != exp:
                problems.append('embedded authority: accessors give %s, RFC decomposition is %s' % (f[:4], exp))
        else:
            ind, pa, comp, allocs, allp = f[0:3], f[3], f[4], f[5], f[6:9]
            if exp is not None:
                if ind != exp: problems.append('individual accessors %s differ from the RFC decomposition %s' % (ind, exp))
                if allp != exp: problems.append('parts() %s differs from the RFC decomposition %s' % (allp, exp))
            else:
                def sl(r):
                    lo, hi = r.split(':'); return b[int(lo):int(hi)]
                try:
                    rec = (sl(ind[0]) + b'@' if ind[0] != '~' else b'') + sl(ind[1]) + (b':' + sl(ind[2]) if ind[2] != '~' else b'')
                except ValueError:
                    rec = None
                if rec != b: problems.append('[userinfo@]host[:port] does not reassemble the text')
            if pa != '1': problems.append('parts() disagrees with the individual accessors')
            if comp != '1': problems.append('a part is not a valid value of its own type')
            mo = mod[line].split('\t')
            if mo[0:3] != ind or mo[3:6] != allp:
                diffs += 1
                if diffs <= 5:
                    R.extra.setdefault('correspondence_diffs', []).append({'case': line, 'input': b.decode('utf-8', 'replace'), 'impl': io, 'model': mod[line]})
        if problems and nviol < 300:
            nviol += 1
            R.violation({'kind': 'authority accessors do not return the RFC 3986 section 3.2 decomposition', 'input': b.decode('utf-8', 'replace'),
                         'input_hex': b.hex(), 'problems': problems, 'implementation': io, 'case': line,
                         'replay': "printf '%s\\n' | %s" % (line.replace('\t', '\\t'), harness)}, no_input=False)
    if diffs and not R.violations:
        R.violation({'kind': 'correspondence broken: model coq/Auth.v and the implementation disagree, but every implementation output satisfied the oracle',
                     'first': R.extra.get('correspondence_diffs', [])[:3]}, no_input=True)
    R.cov['evaluations'] = len(cases)
    R.cov['distinct_nontrivial'] = len(classes)
    R.cov['rule'] = ('authorities composed from (userinfo absent|empty|plain|with colon) x host kind (empty, reg-name, IPv4-like, IPv6 shapes, IPvFuture, '
                     'pct, non-ASCII) x port (absent|empty|digits), stand-alone and embedded in references, both families; plus random walks through the '
                     'translated authority validators with the reassembly oracle; distinct_nontrivial = distinct class tuples')
    R.cov['samples'] = [{'case': c[0], 'input': c[2].decode('utf-8', 'replace'), 'impl': io} for c, io in list(zip(cases, impl))[::max(1, len(cases) // 8)]][:8]
    R.cov['trusted_base'] = R.assumptions
    R.extra.update({'model_vs_impl_differences': diffs, 'tree': os.path.basename(cdir)})
    return R.finish()

if __name__ == '__main__':
    sys.exit(main())
