#!/usr/bin/env python3
"""seedtable.py: regenerates the table of seeded changes in DESIGN.md (between the SEEDTABLE markers) from seeded/*/meta.json"""
import json, os, re
HERE = os.path.dirname(os.path.dirname(os.path.abspath(__file__)))
rows = []
for d in sorted(os.listdir(os.path.join(HERE, 'seeded'))):
    mp = os.path.join(HERE, 'seeded', d, 'meta.json')
    if not os.path.exists(mp):
        continue
    m = json.load(open(mp))
    what = m.get('summary') or ''
    if not what:
        txt = m.get('what_and_needs_to_manifest', '')
        lines = [l.strip(' -*#`') for l in txt.split('\n') if l.strip(' -*#`')]
        lines = [l for l in lines if not re.match(r'(?i)^(change|seeded change)\s*\d', l)] or lines
        what = (lines[0] if lines else '')[:230]
    files = sorted(set(re.findall(r'^\+\+\+ b/(\S+)', open(os.path.join(HERE, 'seeded', d, 'patch.diff')).read(), re.M)))
    files = [f.replace('crates/core/src/', '') for f in files if not f.endswith('.cbor')]
    det = m.get('detected_by', {})
    own = det.get(m['property'], {}).get('result', 'not run')
    rep = det.get(m['property'], {}).get('first_replay') or {}
    kind = (rep.get('kind') or '')[:90]
    others = sorted(k for k, v in det.items() if k != m['property'] and str(v.get('result', '')).startswith('VIOLATION'))
    quiet = sorted(k for k, v in det.items() if k != m['property'] and v.get('result') == 'ok')
    rows.append('| %s | %s | %s | %s%s | %s | %s |' % (d, ', '.join(files), what.replace('|', '\\|'), own, (': ' + kind.replace('|', '\\|')) if kind else '',
                                                    ', '.join(others) or '-', ', '.join(quiet) or '-'))
table = ['| seed | file(s) | what the change does (from the seeding agent\'s notes) | own check | also reported by | run and quiet |', '|---|---|---|---|---|---|'] + rows
p = os.path.join(HERE, 'DESIGN.md'); s = open(p).read()
a, b = '<!-- SEEDTABLE:BEGIN -->', '<!-- SEEDTABLE:END -->'
assert a in s and b in s
s = s[:s.index(a) + len(a)] + '\n' + '\n'.join(table) + '\n' + s[s.index(b):]
open(p, 'w').write(s)
print(len(rows), 'rows')
