#!/usr/bin/env python3
"""Structured generators: values are built from RFC components (never from flat random text), so
almost all are valid and every cross rule of the generic syntax is hit on both sides.  All random
choices derive from the one `random.Random` handed in."""
import random, itertools

UNRES = 'abcdxyzABZ019-._~'
SUB = "!$&'()*+,;="
UCS = ['é', 'ü', ' ', '퟿', '豈', '﷏', 'ﷰ', '￯', '\U00010000', '\U0001fffd', '\U000e1000', '\U000efffd', '日本']
IPRIV = ['', '', '\U000f0000', '\U0010fffd']
PCT = ['%41', '%2F', '%2f', '%2e', '%3A', '%40', '%5B', '%00', '%FF', '%C3%A9', '%c3%a9', '%E2%82%AC', '%C0%AF', '%ED%A0%80', '%F4%90%80%80', '%C3', '%80', '%F0%9F%98%80']
IPV6 = ['::', '::1', '1::', '1:2:3:4:5:6:7:8', '1:2:3:4:5:6:1.2.3.4', '::2:3:4:5:6:7:8', '1::3:4:5:6:7:8', '1:2::4:5:6:7:8',
        '1:2:3::5:6:7:8', '1:2:3:4::6:7:8', '1:2:3:4:5::7:8', '1:2:3:4:5:6::8', '1:2:3:4:5:6:7::', '::ffff:1.2.3.4', 'fe80::a:B', '::1.2.3.4', 'abcd:ef01::']
IPVF = ['v1.a', 'vF.a:b', 'V7f.x:y:z', 'v1.:', "v9.!$&'()*+,;="]
SCHEMES = ['s', 'http', 'a+b-c.d', 'urn', 'Z9', 'file', 'x-y']

class Gen:
    def __init__(self, rnd, fam='uri'):
        self.r = rnd
        self.fam = fam
    def pick(self, l):
        return self.r.choice(l)
    def chars(self, extra='', n=None, ucs=True):
        n = self.r.choice([0, 1, 1, 2, 3, 5, 8]) if n is None else n
        out = []
        for _ in range(n):
            k = self.r.random()
            if k < 0.6:
                out.append(self.pick(UNRES))
            elif k < 0.75:
                out.append(self.pick(SUB))
            elif k < 0.85 and extra:
                out.append(self.pick(extra))
            elif k < 0.93:
                out.append(self.pick(PCT))
            elif self.fam == 'iri' and ucs:
                out.append(self.pick(UCS))
            else:
                out.append(self.pick(UNRES))
        return ''.join(out)
    def scheme(self):
        k = self.r.random()
        if k < 0.7:
            return self.pick(SCHEMES)
        return self.pick('abzAZ') + ''.join(self.pick('abzAZ09+-.') for _ in range(self.r.randint(0, 11)))
    def userinfo(self):
        return self.pick(['', 'u', 'u:p', ':', 'user:pass:word', '%41:', self.chars(':'), self.chars(':')])
    def host(self):
        k = self.r.random()
        if k < 0.12:
            return ''
        if k < 0.22:
            return self.pick(['1.2.3.4', '255.255.255.255', '0.0.0.0', '1.2.3.256', '1.2.3', '01.2.3.4', '1.2.3.4.5', '999.1.1.1'])
        if k < 0.42:
            return '[' + self.pick(IPV6) + ']'
        if k < 0.50:
            return '[' + self.pick(IPVF) + ']'
        if k < 0.7:
            return self.pick(['h', 'example.org', 'a.b.c', 'localhost', '%68ost', 'EXAMPLE.org', "h!$&'()*+,;="])
        return self.chars('')
    def port(self):
        return self.pick(['', '0', '80', '8080', '65536', '00000000000000000080', '443'])
    def authority_parts(self):
        ui = self.userinfo() if self.r.random() < 0.45 else None
        po = self.port() if self.r.random() < 0.5 else None
        return {'userinfo': ui, 'host': self.host(), 'port': po}
    @staticmethod
    def acompose(a):
        return (a['userinfo'] + '@' if a['userinfo'] is not None else '') + a['host'] + (':' + a['port'] if a['port'] is not None else '')
    def authority(self):
        return self.acompose(self.authority_parts())
    SEGS = ['', '.', '..', 'a', 'b', 'b:c', ':', '1a:b', 'a:', '%2F', '%2e', '%2E%2e', '.a', '...', 'a.', '@', 'a;p=1', 'a@b', "!$&'()*+,;=", '%FF', '%C0%AF', 'x' * 30]
    def segment(self, nc=False):
        k = self.r.random()
        if k < 0.7:
            s = self.pick(self.SEGS)
        elif k < 0.8 and self.fam == 'iri':
            s = self.pick(['é', '𐀀', 'a b', '日本語', 'é:é'])
        elif k < 0.82:
            s = 'y' * 300
        else:
            s = self.chars(':@')
        if nc:
            s = s.replace(':', '')
        return s
    def path(self, kind, nseg=None):
        """kind: abempty | absolute | rootless | noscheme | empty"""
        if kind == 'empty':
            return ''
        if nseg is None:
            nseg = self.r.choice([0, 1, 1, 2, 2, 3, 4, 6, 10, 18, 40])
        if kind == 'abempty':
            return ''.join('/' + self.segment() for _ in range(nseg))
        if kind == 'absolute':
            if nseg == 0:
                return '/'
            first = self.segment()
            while first == '':
                first = self.segment()
            return '/' + first + ''.join('/' + self.segment() for _ in range(nseg - 1))
        first = self.segment(nc=(kind == 'noscheme'))
        while first == '':
            first = self.segment(nc=(kind == 'noscheme'))
        return first + ''.join('/' + self.segment() for _ in range(max(0, nseg - 1)))
    def anypath(self):
        return self.path(self.pick(['abempty', 'absolute', 'noscheme', 'rootless', 'empty', 'abempty', 'rootless']))
    def query(self):
        k = self.r.random()
        if k < 0.3:
            return self.pick(['', 'q', 'a=b&c=d', '?', '/', 'x:y/z?w@v', '??'])
        if k < 0.36:
            return 'k=' + 'v' * 2000
        s = self.chars(':@/?')
        if self.fam == 'iri' and self.r.random() < 0.3:
            s += self.pick(IPRIV)
        return s
    def fragment(self):
        k = self.r.random()
        if k < 0.4:
            return self.pick(['', 'f', 'a/b', '?', 'x:y/z?w@v', '/'])
        return self.chars(':@/?')
    def parts(self, scheme=None, authority=None):
        """scheme/authority: None = random presence, True/False = forced"""
        has_s = self.r.random() < 0.6 if scheme is None else scheme
        has_a = self.r.random() < 0.5 if authority is None else authority
        p = {'scheme': self.scheme() if has_s else None, 'authority': self.authority() if has_a else None}
        if has_a:
            p['path'] = self.path('abempty')
        elif has_s:
            p['path'] = self.path(self.pick(['absolute', 'rootless', 'empty', 'rootless', 'absolute']))
        else:
            p['path'] = self.path(self.pick(['absolute', 'noscheme', 'empty', 'noscheme', 'absolute']))
        p['query'] = self.query() if self.r.random() < 0.45 else None
        p['fragment'] = self.fragment() if self.r.random() < 0.4 else None
        return p
    @staticmethod
    def compose(p):
        return ((p['scheme'] + ':') if p['scheme'] is not None else '') + (('//' + p['authority']) if p['authority'] is not None else '') + \
            p['path'] + (('?' + p['query']) if p['query'] is not None else '') + (('#' + p['fragment']) if p['fragment'] is not None else '')
    def reference(self, **kw):
        return self.compose(self.parts(**kw))

def classify_parts(p):
    """non-triviality classifier: which cross rules / shapes a reference exercises"""
    path = p['path']
    return (p['scheme'] is not None, p['authority'] is not None,
            'empty' if path == '' else 'abs' if path.startswith('/') else 'rel',
            '' in path.split('/')[1:-1] if '/' in path else False,
            ':' in path.split('/')[0] if path else False,
            None if p['query'] is None else (p['query'] == ''), None if p['fragment'] is None else (p['fragment'] == ''),
            any(ord(c) > 127 for c in Gen.compose(p)))

# ---------------------------------------------------------------------------------------------
# exhaustive reduced spaces (thorough tier)

def paths_upto(alphabet, nmax, absolute):
    out = []
    for n in range(nmax + 1):
        for segs in itertools.product(alphabet, repeat=n):
            if absolute:
                out.append('/' + '/'.join(segs) if n else '/')
            else:
                out.append('/'.join(segs))
    return sorted(set(out))

def small_refs(seg_alpha=('', '.', '..', 'a', 'b:c'), nmax=3, schemes=(None, 's'), auths=(None, 'h', ''),
               queries=(None, 'q'), frags=(None,)):
    """all valid references over a reduced vocabulary"""
    out = []
    rel = paths_upto(seg_alpha, nmax, False)
    ab = paths_upto(seg_alpha, nmax, True)
    for s in schemes:
        for a in auths:
            for p in rel + ab:
                if a is not None:
                    if p != '' and not p.startswith('/'):
                        continue
                else:
                    if p.startswith('//'):
                        continue
                    if s is None and ':' in p.split('/')[0]:
                        continue
                    if p != '' and not p.startswith('/') and p.split('/')[0] == '' :
                        continue
                for q in queries:
                    for f in frags:
                        out.append(Gen.compose({'scheme': s, 'authority': a, 'path': p, 'query': q, 'fragment': f}))
    return sorted(set(out))
