#!/usr/bin/env python3
"""C13: URIs embed into IRIs (validator inclusions proved on the generated DFAs), conversions between the eight
types are exact, and both families behave identically on ASCII input."""
import os, sys, json, re, random, time
from concurrent.futures import ThreadPoolExecutor
sys.path.insert(0, os.path.dirname(os.path.abspath(__file__)))
from vlib import *
from gen import Gen
import spec, c01, c04, cmpgen

PAIRS = [('uri', 'iri'), ('uri_reference', 'iri_reference'), ('uri_authority', 'iri_authority'), ('uri_user_info', 'iri_user_info'), ('uri_host', 'iri_host'),
         ('uri_path', 'iri_path'), ('uri_path_segment', 'iri_path_segment'), ('uri_query', 'iri_query'), ('uri_fragment', 'iri_fragment'),
         ('uri', 'uri_reference'), ('iri', 'iri_reference')]

def gen_v(g, a, b):
    src = '''From Coq Require Import List NArith Bool.
Import ListNotations.
Require Import V.Regex V.Bisim V.C01Lib G.GenDfa.
Open Scope N_scope.
Theorem C13_%(a)s_in_%(b)s : forall w : list N, dfa_accepts dfa_%(a)s w = true -> dfa_accepts dfa_%(b)s w = true.
Proof.
  intros w H. pose proof (check_dd_sound implb dfa_%(a)s dfa_%(b)s ltac:(vm_cast_no_check (eq_refl true)) w) as E.
  rewrite H in E. exact E.
Qed.
Print Assumptions C13_%(a)s_in_%(b)s.
''' % {'a': a, 'b': b}
    p = os.path.join(g, 'C13_%s_%s.v' % (a, b))
    open(p, 'w').write(src)
    return p

def gen_diff(g, a, b):
    src = '''From Coq Require Import List NArith Bool.
Import ListNotations.
Require Import V.Regex V.Bisim V.C01Lib G.GenDfa.
Open Scope N_scope.
Eval vm_compute in (match find_diff_dd implb dfa_%(a)s dfa_%(b)s with Some w => (1, w) | None => (0, []) end).
''' % {'a': a, 'b': b}
    p = os.path.join(g, 'C13diff_%s_%s.v' % (a, b))
    open(p, 'w').write(src)
    return p

def conv_problems(dfas, b, io):
    """judges the output of the harness op `conv` (every conversion between the eight URI/IRI types) for the text b: a conversion must
    succeed exactly when the target grammar (the translated validator) accepts the text, and must keep the text"""
    def acc(t, b):
        tk = c01.tokens_of(dfas[t], b)
        return tk is not None and c01.dfa_run(dfas[t], tk)
    pr = []
    V = {t: acc(t, b) for t in ('uri', 'uri_reference', 'iri', 'iri_reference')}
    toks = dict(x.split(':', 1) for x in io.split(' ') if ':' in x)
    if 'PANIC' in io: pr.append('a conversion panicked')
    for name, res in toks.items():
        if res.startswith('CHANGED') or res == '!' or res == 'err!':
            pr.append('%s changed the text / did not hand back the original' % name)
        target = None
        if 'as_uri_ref' in name or '->&uriref' in name or 'into_uri_ref' in name or '->urirefbuf' in name: target = 'uri_reference'
        elif 'as_iri_ref' in name or '->&iriref' in name or 'into_iri_ref' in name or '->irirefbuf' in name: target = 'iri_reference'
        elif 'as_uri' in name or '->&uri' in name or 'into_uri' in name or '->uribuf' in name: target = 'uri'
        elif 'as_iri' in name or '->&iri' in name or 'into_iri' in name or '->iribuf' in name: target = 'iri'
        if target and res != '-':
            ok = res in ('ok', '=')
            if ok != V[target]:
                pr.append('%s %s although the %s grammar %s the text' % (name, 'succeeded' if ok else 'failed', target, 'accepts' if V[target] else 'rejects'))
    for t, pre in (('uri', 'uri'), ('uri_reference', 'uriref'), ('iri', 'iri'), ('iri_reference', 'iriref')):
        if V[t] and (pre + ':-') in io.split(' '): pr.append('%s::new rejected a text its grammar accepts' % pre)
    return pr, V

DELIM_RICH = ['?t=12:30', '#a:b', 'x?k:v', 'x#k:v', '?a:b#c:d', 'p/q?r:s', '?:', '#:', 'a?b/c:d', '//h?x:y', '/p#x:y', '?x:y/z', 's:?a:b', 's:#a:b', 'a:b?c:d']

def main():
    R = Result('C13', 'proof')
    rnd = random.Random(R.seed)
    thorough = R.tier == 'thorough'
    R.assumptions = ['Coq kernel + vm_compute (check_dd_sound: verified product-automaton certificate checker)', 'translator expand2dfa.py (validated by C01 on every run)',
                     'conversions and cross-family agreement: differential testing through the harness', 'one Coq model serves both families (the Rust front ends uri/*.rs and iri/*.rs are compared with it and with each other)']
    props_check(R, 'C13')
    st = setup_check(R)
    if st is None:
        return R.finish()
    cdir, harness, model = st
    dfas = json.load(open(os.path.join(cdir, 'dfa.json')))
    g = os.path.join(cdir, 'gen'); os.makedirs(g, exist_ok=True)
    with Lock('gen-' + os.path.basename(cdir)):
        if not os.path.exists(os.path.join(g, 'GenDfa.vo')):
            import shutil
            shutil.copy(os.path.join(cdir, 'GenDfa.v'), os.path.join(g, 'GenDfa.v'))
            rc, o, e = coqc(os.path.join(g, 'GenDfa.v'), [(g, 'G')])
            if rc != 0:
                R.violation({'kind': 'GenDfa.v does not compile', 'log': (o + e)[-2000:]}, no_input=True); return R.finish()
    coq_build(['C01Lib.vo'])
    def prove(ab):
        a, b = ab
        rc, o, e = coqc(gen_v(g, a, b), [(g, 'G')], timeout=900)
        return ab, rc, o + e
    with ThreadPoolExecutor(max_workers=11) as ex:
        res = list(ex.map(prove, [p for p in PAIRS if p[0] in dfas and p[1] in dfas]))
    R.cov['obligations'] += len(PAIRS)
    for (a, b), rc, out in res:
        closed, ax = assumptions_closed(out)
        if rc == 0 and closed >= 1 and ax == 0:
            R.cov['discharged'] += 1
        else:
            rc2, o2, e2 = coqc(gen_diff(g, a, b), [(g, 'G')], timeout=900)
            nums = [int(x) for x in re.findall(r'\d+', o2.split('=', 1)[1])] if rc2 == 0 and '=' in o2 else None
            rep = {'kind': 'inclusion theorem C13_%s_in_%s no longer checks' % (a, b), 'coqc': out[-800:]}
            found = False
            if nums and nums[0] == 1:
                word = nums[1:]
                bts = c01.enc(dfas[a], word)
                ia = run_lines(harness, ['parse\t%s\t%s' % (a, hexs(bts)), 'parse\t%s\t%s' % (b, hexs(bts))])
                rep.update({'word': word, 'text': bts.decode('utf-8', 'replace'), 'accepted_by_%s' % a: ia[0], 'accepted_by_%s' % b: ia[1]})
                found = ia[0][:1] == 'A' and ia[1].replace('-', '')[:1] != 'A'
            R.violation(rep, no_input=not found)
    R.cov['checker_cmd'] += 'coqc C13_<a>_in_<b>.v (11 generated files: check_dd_sound implb on the generated DFAs); '
    # ---- conversions
    lines = []; meta = []
    for fam in ('uri', 'iri'):
        gg = Gen(random.Random(rnd.random()), fam)
        for _ in range(40000 if thorough else 1500):
            p = gg.parts()
            lines.append('conv\t%s' % hexs(Gen.compose(p))); meta.append(Gen.compose(p).encode())
    for t in ('uri_reference', 'iri_reference'):
        for b in c01.sample_strings(dfas[t], random.Random(rnd.random()), 15000 if thorough else 600):
            lines.append('conv\t%s' % hexs(b)); meta.append(b)
    # references whose query / fragment contain the delimiters that are legal there (':' '/' '?' '@'): the scheme test of a
    # conversion must not look past the path
    for x in DELIM_RICH:
        lines.append('conv\t%s' % hexs(x)); meta.append(x.encode())
    impl = run_lines(harness, lines)
    nviol = 0; classes = set()
    for b, line, io in zip(meta, lines, impl):
        pr, V = conv_problems(dfas, b, io)
        classes.add((tuple(V.values()), any(c > 127 for c in b), spec.parse(b)[0] is None))
        if pr:
            nviol += 1
            if nviol <= 300:
                R.violation({'kind': 'conversion between the URI/IRI kinds is not exact', 'input': b.decode('utf-8', 'replace'), 'problems': pr[:5], 'implementation': io[:1500],
                             'replay': "printf '%s\\n' | %s" % (line.replace('\t', '\\t'), harness)}, no_input=False)
    # ---- both families give identical results on ASCII input
    ul = []; il = []
    def both(fmt_u, fmt_i=None):
        ul.append(fmt_u); il.append(fmt_i if fmt_i is not None else fmt_u.replace('\turi', '\tiri', 1))
    gu = Gen(random.Random(rnd.random()), 'uri')
    SEG = ['a', 'b', 'c', '', '.', '..', '%61', 'b:c', 'zz']
    for _ in range(20000 if thorough else 800):
        p = gu.parts(); b = Gen.compose(p)
        q = cmpgen.equal_variant(gu, p) if gu.r.random() < 0.4 else (cmpgen.mutate_one(gu, p) or gu.parts())
        both('ref\turiref\t' + hexs(b))
        both('eq\turiref\t' + hexs(b) + '\t' + hexs(Gen.compose(q)))
        if gu.r.random() < 0.25:     # two components differing in opposite directions: the field order of the comparison must agree
            for pp, qq in cmpgen.two_component_pairs(gu, 1):
                both('eq\turiref\t' + hexs(Gen.compose(pp)) + '\t' + hexs(Gen.compose(qq)))
                both('eq\turi\t' + hexs(Gen.compose(pp)) + '\t' + hexs(Gen.compose(qq)))
        # unrelated paths of different lengths under the same scheme/authority: the orderings must agree too
        p1 = '/' + '/'.join(gu.pick(SEG) for _ in range(gu.pick([1, 2, 3, 4]))); p2 = '/' + '/'.join(gu.pick(SEG) for _ in range(gu.pick([1, 2, 3, 4])))
        both('eq\turiref\t' + hexs('s://h' + p1) + '\t' + hexs('s://h' + p2))
        both('eq\tupath\t' + hexs(p1) + '\t' + hexs(p2), 'eq\tipath\t' + hexs(p1) + '\t' + hexs(p2))
        both('eq\tusegment\t' + hexs(gu.pick(SEG)) + '\t' + hexs(gu.pick(SEG)), None)
        il[-1] = ul[-1].replace('usegment', 'isegment')
        a1 = gu.authority(); a2 = gu.authority()
        both('eq\tuauthority\t' + hexs(a1) + '\t' + hexs(a2), 'eq\tiauthority\t' + hexs(a1) + '\t' + hexs(a2))
        base = gu.parts(scheme=True)
        both('resolve\turi\t' + hexs(Gen.compose(base)) + '\t' + hexs(b))
        ops = [c04.rand_op(gu, 'uriref', False) for _ in range(gu.pick([1, 2, 3]))]
        both('ops\turiref\t' + hexs(b) + '\t' + '\t'.join(ops))
        both('norm\turi\t' + hexs(p['path']))
        both('relto\turi\t' + hexs(Gen.compose(base)) + '\t' + hexs(Gen.compose(gu.parts(scheme=True))))
        both('suffix\turi\t' + hexs('s://h' + p1 + '/x/y') + '\t' + hexs('s://h' + p1))
    uo = run_lines(harness, ul); io_ = run_lines(harness, il)
    for l, a, b in zip(ul, uo, io_):
        classes.add(('xfam', l.split('\t')[0]))
        if a != b:
            nviol += 1
            if nviol <= 300:
                R.violation({'kind': 'URI and IRI families behave differently on the same ASCII input', 'case': l.replace('\t', ' ')[:600], 'uri_family': a[:600], 'iri_family': b[:600],
                             'replay': "printf '%s\\n' | %s" % (l.replace('\t', '\\t'), harness)}, no_input=False)
    R.cov['evaluations'] = len(lines) + 2 * len(ul)
    R.cov['distinct_nontrivial'] = len(classes)
    R.cov['rule'] = ('11 inclusion theorems on the generated validators (URI types in their IRI counterparts, Uri in UriRef, Iri in IriRef); every as_*/into_*/try_into_*/TryFrom/From '
                     'between the eight types on generated references and random walks through the reference validators (success iff the target grammar accepts, text preserved, failed '
                     'conversions return the original); accessors, ==/cmp/hash stream, resolution, mutation sequences, normalisation and relative_to run in both families on the same ASCII '
                     'input and compared; distinct_nontrivial = distinct (validity vector, non-ASCII, scheme?) + cross-family op kinds')
    R.cov['samples'] = [{'input': b.decode('utf-8', 'replace')[:80], 'conversions': io[:200]} for b, io in list(zip(meta, impl))[::max(1, len(meta) // 5)]][:5]
    R.cov['trusted_base'] = R.assumptions
    R.extra.update({'cross_family_cases': len(ul), 'conversion_cases': len(lines), 'tree': os.path.basename(cdir)})
    return R.finish()

if __name__ == '__main__':
    sys.exit(main())
