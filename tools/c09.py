#!/usr/bin/env python3
"""C09: dot-segment normalisation (normalized_segments, normalized(), in-place normalize) follows RFC 3986 5.2.4 / Errata 4547."""
import os, sys, json, random, itertools
sys.path.insert(0, os.path.dirname(os.path.abspath(__file__)))
from vlib import *
from gen import Gen, paths_upto, small_refs
import spec
from spec import segs, norm, is_abs, render

def norm_g11(ab, l):
    """the recorded deviation G11: an empty segment that arrives while the accumulated path is empty is skipped"""
    st = []
    for s in l:
        if s == b'.': continue
        if s == b'..':
            if st and st[-1] != b'..': st.pop()
            elif not ab: st.append(s)
        elif s == b'' and not st: continue
        else: st.append(s)
    return st

def acceptable(ab, N):
    out = set()
    base = render(ab, N)
    if is_abs(base) == ab and segs(base) == N:
        out.add(base)
    if N and (N[0] == b'' or b':' in N[0]):
        out.add((b'/./' if ab else b'./') + b'/'.join(N))
    if ab and N == [b'']:
        out |= {b'/', b'/./'}
    return out

def trail(l, N):
    return N + [b''] if (l and l[-1] in (b'.', b'..') and N) else N

def scan_classes(p):
    """which recorded deviations of normalized() (it pushes segment by segment onto a fresh PathBuf) can fire on p"""
    ab = is_abs(p); st = []; shield = False; out = set()
    for s in segs(p):
        if s == b'.':
            continue
        if s == b'..':
            if st and st[-1] != b'..':
                st.pop()
                if not st and shield: out.add('K_shield_left')
            elif not ab: st.append(s)
        elif s == b'' and not st:
            out.add('K_G11')
        else:
            if not st and (b':' in s):
                shield = True
            st.append(s)
    return out

def judge(p, got, with_trailing, pushed):
    """(ok, known-class) for a normalised text `got` of path p; pushed = computed by symbolic pushes (normalized()) """
    ab = is_abs(p); l = segs(p)
    N = norm(ab, l); T = trail(l, N) if with_trailing else N
    acc = acceptable(ab, T)
    if not ab and T == [b'']:
        acc.add(b'')          # I4 extended: a lone empty segment is not representable without a shield
    if got in acc:
        return True, None
    if pushed:
        cl = scan_classes(p)
        if cl:
            return False, sorted(cl)[0]
    return False, None

def main():
    R = Result('C09', 'proof')
    rnd = random.Random(R.seed)
    thorough = R.tier == 'thorough'
    R.assumptions = ['Coq kernel', 'hand-written model coq/PathQ.v (normalized_segments), PathMut.v (normalize, normalized) of common/path.rs, path_mut.rs, tied to the code by this run',
                     'extraction + ocamlopt', 'Rust harness', 'interpretations I4, I8 of DESIGN.md section 8']
    props_check(R, 'C09')
    st = setup_check(R)
    if st is None:
        return R.finish()
    cdir, harness, model = st
    known_listed = {k['id']: k for k in known_findings('C09')}
    lines = []; meta = []
    SEGS = ['', '.', '..', 'a', 'b:c', 'x', '%2e', '%2E%2e', 'a..', '...', '..a', '.a', 'a.', 'é', 'é..']
    for fam in ('uri', 'iri'):
        g = Gen(random.Random(rnd.random()), fam)
        for i in range(40000 if thorough else 1500):
            if i % 40 == 0:   # beyond the 16-segment and 512-byte inline buffers
                nseg = g.pick([17, 40, 200]); segl = [g.pick(['a', '..', '.', 'b' * 40, '']) for _ in range(nseg)]
            else:
                segl = [g.pick(SEGS if fam == 'iri' else SEGS[:13]) for _ in range(g.pick([0, 1, 2, 3, 4, 5, 7]))]
            path = ('/' if g.r.random() < 0.5 else '') + '/'.join(segl)
            lines.append('norm\t%s\t%s' % (fam, hexs(path))); meta.append(('norm', fam, path.encode(), None))
            # embedded in every kind of reference
            p = g.parts()
            pth = path
            if p['authority'] is not None and pth and not pth.startswith('/'): pth = '/' + pth
            if p['authority'] is None and pth.startswith('//'): pth = '/.' + pth
            if p['authority'] is None and p['scheme'] is None and ':' in pth.split('/')[0]: pth = './' + pth
            if p['authority'] is None and not pth.startswith('/') and pth.split('/')[0] == '' and pth != '': pth = './' + pth
            p['path'] = pth
            kind = fam + ('' if p['scheme'] is not None and g.r.random() < 0.4 else 'ref')
            lines.append('refnorm\t%s\t%s' % (kind, hexs(Gen.compose(p)))); meta.append(('refnorm', kind, Gen.compose(p).encode(), pth.encode()))
            if i % 2 == 0:   # twice through ONE handle
                lines.append('pathops\t%s\t%s\tpn\tpn' % (kind, hexs(Gen.compose(p)))); meta.append(('handle', kind, Gen.compose(p).encode(), pth.encode()))
    alpha = ('', '.', '..', 'a', 'b:c')
    for ab in (False, True):
        for path in paths_upto(alpha, 5 if thorough else 4, ab):
            if not ab and path.startswith('/'):
                continue
            lines.append('norm\turi\t%s' % hexs(path)); meta.append(('norm', 'uri', path.encode(), None))
    impl = run_lines(harness, lines)
    mod = run_lines(model, lines)
    nviol = 0; diffs = 0; classes = set(); known_seen = {}
    for (op, kind, text, pth), line, io, mo in zip(meta, lines, impl, mod):
        if io.startswith('ERR'):
            continue
        pr = []; kn = set()
        if 'PANIC' in io:
            pr.append('panic')
        elif op == 'norm':
            f = io.split('\t'); p = text
            n, nvalid, nn, ns, once, ovalid, twice = unhex(f[0]), f[1], unhex(f[2]), f[3], unhex(f[4]), f[5], unhex(f[6])
            got_ns = [unhex(x) for x in ns.split(',')] if ns else []
            if got_ns != norm(is_abs(p), segs(p)):
                pr.append('normalized_segments() = %r, scanning left to right gives %r' % (got_ns, norm(is_abs(p), segs(p))))
            ok, k = judge(p, n, True, True)
            if not ok:
                (kn.add(k) if k else pr.append('normalized() = %r is not the 5.2.4 rendering of %r' % (n, norm(is_abs(p), segs(p)))))
            if nvalid != '1' or is_abs(n) != is_abs(p): pr.append('normalized() is invalid or changed absoluteness: %r' % n)
            if nn != n:
                cl = scan_classes(p) | scan_classes(n)
                if n.startswith(b'./') or n.startswith(b'/./') or cl:
                    kn.add('K_shield_left' if (n.startswith(b'./') or n.startswith(b'/./') or 'K_shield_left' in cl) else 'K_G11')
                else:
                    pr.append('normalized() is not idempotent: %r -> %r' % (n, nn))
            ok, k = judge(p, once, False, False)
            if not ok:
                (kn.add(k) if k else pr.append('in-place normalize() = %r is not the rendering of %r' % (once, norm(is_abs(p), segs(p)))))
            if ovalid != '1' or is_abs(once) != is_abs(p): pr.append('normalize() result invalid or absoluteness changed: %r' % once)
            if twice != once: pr.append('in-place normalize() is not idempotent: %r -> %r' % (once, twice))
            if len(f) > 7 and f[7] != '1': pr.append('normalized_segments() read from the back (rev(), or alternating next/next_back) does not give the same sequence %r' % got_ns)
            classes.add((op, is_abs(p), min(len(segs(p)), 9), b'..' in segs(p), b'' in segs(p)[:-1], any(b':' in s for s in segs(p)), len(p) > 512))
        elif op == 'handle':
            secs = io.split('\t|\t')
            views = secs[0].split('\t')
            f = secs[1].split('\t')
            P0 = spec.parse(text)
            g_ = lambda x: None if x == '~' else unhex(x)
            if views[0] != views[1]: pr.append('normalize() twice through one handle: %r then %r' % (unhex(views[0].split('/')[0]), unhex(views[1].split('/')[0])))
            if f[1] != '1': pr.append('result does not re-parse: %r' % unhex(f[0]))
            if (g_(f[2]), g_(f[3]), g_(f[5]), g_(f[6])) != (P0[0], P0[1], P0[3], P0[4]): pr.append('scheme/authority/query/fragment altered: %r' % unhex(f[0]))
            if unhex(f[4]) != unhex(views[1].split('/')[0]): pr.append('the buffer path %r is not what the handle viewed %r' % (unhex(f[4]), unhex(views[1].split('/')[0])))
            classes.add((op, kind, P0[0] is None, P0[1] is None))
        else:
            secs = [x.split('\t') for x in io.split('\t|\t')]
            g_ = lambda x: None if x == '~' else unhex(x)
            snap = lambda f: (g_(f[2]), g_(f[3]), unhex(f[4]), g_(f[5]), g_(f[6]))
            b0, b1, b2 = snap(secs[0]), snap(secs[1]), snap(secs[2])
            if (b0[0], b0[1], b0[3], b0[4]) != (b1[0], b1[1], b1[3], b1[4]):
                pr.append('normalising the path altered scheme/authority/query/fragment: %r -> %r' % (b0, b1))
            if secs[1][1] != '1': pr.append('result does not re-parse: %r' % unhex(secs[1][0]))
            if spec.parse(unhex(secs[1][0])) != b1: pr.append('result is ambiguous: %r' % unhex(secs[1][0]))
            ok, k = judge(b0[2], b1[2], False, False)
            if not ok:
                (kn.add(k) if k else pr.append('embedded normalize(): path %r -> %r, expected the rendering of %r' % (b0[2], b1[2], norm(is_abs(b0[2]), segs(b0[2])))))
            if is_abs(b1[2]) != is_abs(b0[2]): pr.append('absoluteness changed')
            if secs[2][0] != secs[1][0]: pr.append('embedded normalize() is not idempotent')
            classes.add((op, kind, b0[0] is None, b0[1] is None, is_abs(b0[2]), min(len(segs(b0[2])), 6)))
        strip = lambda s: [x for i, x in enumerate(s.split('\t')) if x not in ('0', '1', '-') or i == 0]
        if kn and not pr and strip(io) != strip(mo):
            pr.append('deviates inside the recorded class %s, but NOT in the recorded way (the model carries the recorded behaviour)' % '/'.join(sorted(kn)))
            kn = set()
        for k in kn:
            known_seen[k] = known_seen.get(k, 0) + 1
            if k in known_listed:
                R.known_finding(known_listed[k]['what'])
            else:
                pr.append('deviation of class %s which is not listed in known_findings.json' % k)
        if pr:
            nviol += 1
            if nviol <= 300:
                R.violation({'kind': 'dot-segment normalisation deviates from RFC 3986 5.2.4 / Errata 4547', 'op': op, 'type': kind, 'input': text.decode('utf-8', 'replace')[:600],
                             'problems': pr[:4], 'implementation': io[:800], 'model': mo[:800], 'replay': "printf '%s\\n' | %s" % (line.replace('\t', '\\t')[:5000], harness)}, no_input=False)
        strip = lambda s: [x for i, x in enumerate(s.split('\t')) if x not in ('0', '1', '-') or i == 0]
        if strip(io) != strip(mo):
            diffs += 1
            if diffs <= 5:
                R.extra.setdefault('correspondence_diffs', []).append({'case': line[:600], 'impl': io[:600], 'model': mo[:600]})
    if diffs and not R.violations:
        R.violation({'kind': 'correspondence broken: the normalisation model and the implementation disagree, but every implementation output satisfied the oracle',
                     'first': R.extra.get('correspondence_diffs', [])[:3]}, no_input=True)
    R.cov['evaluations'] = len(lines)
    R.cov['distinct_nontrivial'] = len(classes)
    R.cov['rule'] = ('paths of both families (absolute/relative; ".", "..", empty, colon-bearing, percent-encoded dots, multi-byte segments; > 16 segments and > 512 bytes), '
                     'stand-alone (normalized_segments, normalized(), PathBuf::normalize, each twice) and embedded in references of every shape (path_mut().normalize() twice, all '
                     'accessors before and after); plus all paths of <= 4 (thorough 5) segments over {"",".","..",a,b:c}; distinct_nontrivial = distinct shape tuples')
    R.cov['samples'] = [{'case': l[:160].replace('\t', ' '), 'impl': io[:200].replace('\t', ' ')} for l, io in list(zip(lines, impl))[::max(1, len(lines) // 6)]][:6]
    R.cov['trusted_base'] = R.assumptions
    R.extra.update({'model_vs_impl_differences': diffs, 'known_classes_seen': known_seen, 'tree': os.path.basename(cdir)})
    return R.finish()

if __name__ == '__main__':
    sys.exit(main())
