#!/usr/bin/env python3
"""C17: the compile-time macros accept exactly what the run-time parser accepts and produce the same value."""
import os, sys, json, random, tempfile, shutil, hashlib
sys.path.insert(0, os.path.dirname(os.path.abspath(__file__)))
from vlib import *
import c01

MACROS = [('uri', 'iref::Uri', 'uri'), ('uri_ref', 'iref::UriRef', 'uri_reference'), ('iri', 'iref::Iri', 'iri'), ('iri_ref', 'iref::IriRef', 'iri_reference')]

def rust_lit(s, raw):
    if raw and '"#' not in s and '\r' not in s:
        return 'r#"' + s + '"#'
    out = []
    for ch in s:
        o = ord(ch)
        if ch == '\\': out.append('\\\\')
        elif ch == '"': out.append('\\"')
        elif ch == '\n': out.append('\\n')
        elif ch == '\t': out.append('\\t')
        elif ch == '\r': out.append('\\r')
        elif o < 0x20 or o == 0x7f or (0x80 <= o < 0xa0) or o in (0x2028, 0x2029, 0xfeff) or (o > 127 and len(out) % 3 == 0):
            out.append('\\u{%x}' % o)
        else: out.append(ch)
    return '"' + ''.join(out) + '"'

def main():
    R = Result('C17', 'proof')
    rnd = random.Random(R.seed)
    thorough = R.tier == 'thorough'
    R.assumptions = ['accept language: thin model "macro lit = if validator accepts lit then Const lit else CompileError" + the C01 theorems for the four types (re-checked for this tree)',
                     'the expansion round trip (syn::LitStr, quote!, rustc lexer) is OBSERVED: one cargo build of a generated crate with JSON diagnostics, no executable model of the compiler',
                     'rustc reports every proc-macro compile_error! of a file in one pass (checked at design time)']
    props_check(R, 'C17')
    st = setup_check(R, need_model=False)
    if st is None:
        return R.finish()
    cdir, harness, _ = st
    coq_build(['C01Lib.vo'])
    if not c01.ensure_gendfa(R, cdir):
        return R.finish()
    dfas = json.load(open(os.path.join(cdir, 'dfa.json')))
    types = [m[2] for m in MACROS if m[2] in dfas]
    res = c01.prove_all(cdir, types, {t: [] for t in types}, reuse=True)
    R.cov['obligations'] += len(MACROS)
    for t, rc, o, e, dt in res:
        closed, ax = assumptions_closed(o)
        if rc == 0 and closed >= 1 and ax == 0: R.cov['discharged'] += 1
        else: R.violation({'kind': 'accept side: theorem C01_%s no longer checks' % t, 'coqc': (o + e)[-600:]}, no_input=True)
    R.cov['checker_cmd'] += 'coqc C01_<type>.v for uri, uri_reference, iri, iri_reference (shared with C01); '
    # ---- literals
    n = 1500 if thorough else 120
    lits = []   # (macro, type path, dfa name, text, accepted?)
    for mac, ty, t in MACROS:
        seen = set()
        extra = ['', 'a', 'http://a/b', 'http://a/b c', '#f', '//h', 'foo:bar', 'https://例え.jp/café?q=é#ü', 'http://a/\\', 'a"b', 's:/\u00a0', 's:\ue000', 's:?\ue000', 'http://[::1]/', 'http://[::01.2.3.4]/', 'x:%', 'x:%zz', 'x:%41']
        extra += ['http://example.org/\u0434', 'http://a/\u672c', 'http://\u0142\u00f3d\u017a.example/', '/\u0434\u0430']   # code points whose low byte is a legal ASCII character
        base = [b for b in c01.sample_strings(dfas[t], random.Random(rnd.random()), n * 3)]
        # the same class in general: one character of an accepted ASCII literal moved up by a multiple of 256 (same low byte)
        r2 = random.Random(rnd.random()); wide = []
        for b in base[:40]:
            try: s0 = b.decode('ascii')
            except UnicodeDecodeError: continue
            if not s0: continue
            i = r2.randrange(len(s0)); c2 = chr(ord(s0[i]) + 256 * r2.choice([1, 4, 0x67, 0x100]))
            if not (0xD800 <= ord(c2) <= 0xDFFF): wide.append((s0[:i] + c2 + s0[i + 1:]).encode())
        extra_n = len(extra) + 12
        cand = [x.encode() for x in extra] + wide[:12] + base
        for b in cand:
            try:
                s = b.decode('utf-8')
            except UnicodeDecodeError:
                continue
            if s in seen or any(0xD800 <= ord(c) <= 0xDFFF for c in s):
                continue
            seen.add(s)
            tk = c01.tokens_of(dfas[t], b)
            lits.append((mac, ty, t, s, bool(tk is not None and c01.dfa_run(dfas[t], tk))))
            if len(seen) >= n + extra_n:
                break
    tmp = tempfile.mkdtemp(prefix='iref-verif-c17-')
    nviol = 0; classes = set()
    try:
        src = os.path.join(tmp, 'repo')
        sh(['rsync', '-a', '--exclude', '/target', '--exclude', '/.git', REPO + '/', src + '/'])
        if not os.path.exists(os.path.join(src, 'Cargo.lock')) and os.path.exists('/repo/Cargo.lock'):
            shutil.copy('/repo/Cargo.lock', os.path.join(src, 'Cargo.lock'))
        env = dict(ENV, CARGO_TARGET_DIR=os.path.join(tmp, 'target'))
        def crate(name, body, kind):
            d = os.path.join(tmp, name); os.makedirs(os.path.join(d, 'src'))
            open(os.path.join(d, 'Cargo.toml'), 'w').write('[package]\nname = "%s"\nversion = "0.1.0"\nedition = "2021"\n[workspace]\n[dependencies]\niref = { path = "%s", features = ["macros"] }\n' % (name, src))
            shutil.copy(os.path.join(src, 'Cargo.lock'), os.path.join(d, 'Cargo.lock'))
            open(os.path.join(d, 'src', 'lib.rs' if kind == 'lib' else 'main.rs'), 'w').write(body)
            return d
        # crate A: one literal per line; the set of failing lines is the set of rejected literals
        body = ['#![allow(dead_code)]']
        for i, (mac, ty, t, s, acc) in enumerate(lits):
            body.append('const C%d: &%s = iref::%s!(%s);' % (i, ty, mac, rust_lit(s, i % 7 == 3)))
        a = crate('litcheck', '\n'.join(body) + '\n', 'lib')
        rc, out, err = sh(['cargo', 'build', '--offline', '--message-format=json', '-j', '16'], cwd=a, env=env, timeout=1500, check=False)
        failing = set(); other_errors = []
        for l in out.split('\n'):
            if not l.startswith('{'):
                continue
            try: m = json.loads(l)
            except ValueError: continue
            msg = m.get('message') or {}
            if m.get('reason') == 'compiler-message' and msg.get('level') == 'error':
                sp = [x for x in msg.get('spans', []) if x.get('file_name', '').endswith('lib.rs')]
                if sp: failing.add(sp[0]['line_start'] - 2)
                elif 'aborting' not in msg.get('message', ''): other_errors.append(msg.get('message', '')[:200])
        if rc != 0 and not failing:
            R.violation({'kind': 'the literal crate does not build for another reason', 'stderr': err[-1500:], 'errors': other_errors[:5]}, no_input=True)
        for i, (mac, ty, t, s, acc) in enumerate(lits):
            rejected = i in failing
            classes.add((mac, acc, any(ord(c) > 127 for c in s), any(c in s for c in '"\\')))
            if rejected == acc:
                nviol += 1
                if nviol <= 300:
                    R.violation({'kind': 'macro and run-time parser disagree on a literal', 'macro': mac + '!', 'literal': s, 'literal_source': rust_lit(s, i % 7 == 3),
                                 'macro_accepts': not rejected, 'run_time_grammar_accepts': acc}, no_input=False)
        # crate B: accepted literals; the value must be indistinguishable from the run-time parse
        okl = [(i, x) for i, x in enumerate(lits) if x[4] and i not in failing]
        # one small function per literal (a single huge `main` makes rustc's borrow checker and LLVM take tens of minutes)
        body = ['#![allow(non_snake_case)]']
        for i, (mac, ty, t, s, acc) in okl:
            lit = rust_lit(s, i % 7 == 3)
            body.append('fn t%d() -> u32 { const M: &%s = iref::%s!(%s); let r = <%s>::new(%s).unwrap(); if !(M.as_bytes() == %s.as_bytes() && M.as_str() == %s && M == r && M.as_bytes() == r.as_bytes() && format!("{:?}", M.path()) == format!("{:?}", r.path()) && M.authority().map(|a| a.as_bytes()) == r.authority().map(|a| a.as_bytes()) && M.query().map(|a| a.as_bytes()) == r.query().map(|a| a.as_bytes()) && M.fragment().map(|a| a.as_bytes()) == r.fragment().map(|a| a.as_bytes())) { println!("BAD %d {}", M.as_bytes().iter().map(|b| format!("{:02x}", b)).collect::<String>()); 1 } else { 0 } }' % (i, ty, mac, lit, ty, lit, lit, lit, i))
        body += ['fn main() {', '    let fs: &[fn() -> u32] = &[' + ', '.join('t%d' % i for i, _ in okl) + '];', '    let mut bad = 0;', '    for f in fs { bad += f(); }', '    println!("DONE {}", bad);', '}']
        bdir = crate('valcheck', '\n'.join(body) + '\n', 'bin')
        rc, out, err = sh(['cargo', 'run', '--offline', '-q', '-j', '16'], cwd=bdir, env=env, timeout=3000, check=False)
        if 'DONE' not in out:
            R.violation({'kind': 'the crate using the accepted literals does not build or run', 'stderr': err[-2000:]}, no_input=True)
        for l in out.split('\n'):
            if l.startswith('BAD'):
                i = int(l.split()[1]); nviol += 1
                R.violation({'kind': 'the value produced by the macro differs from the run-time parse', 'macro': lits[i][0] + '!', 'literal': lits[i][3], 'observed_bytes_hex': l.split(' ', 2)[2], 'expected_bytes_hex': lits[i][3].encode('utf-8', 'surrogatepass').hex()}, no_input=False)
    finally:
        shutil.rmtree(tmp, ignore_errors=True)
    R.cov['evaluations'] = len(lits)
    R.cov['distinct_nontrivial'] = len(classes)
    R.cov['rule'] = ('one program per literal and macro (uri!, uri_ref!, iri!, iri_ref!): literals from random walks through the translated validator, boundary edits, non-ASCII text, '
                     'characters needing escapes (\\u{..}, \\", \\\\) and raw strings, empty literal; accepted iff the run-time grammar accepts; accepted values compared with the run-time '
                     'parse (text, bytes, ==, components); distinct_nontrivial = distinct (macro, accepted?, non-ASCII?, needs escaping?)')
    R.cov['samples'] = [{'macro': l[0] + '!', 'literal': l[3][:60], 'accepted': l[4]} for l in lits[::max(1, len(lits) // 8)]][:8]
    R.cov['trusted_base'] = R.assumptions
    R.extra.update({'literals_accepted': sum(1 for l in lits if l[4]), 'literals_rejected': sum(1 for l in lits if not l[4]), 'tree': os.path.basename(cdir)})
    return R.finish()

if __name__ == '__main__':
    sys.exit(main())
