#!/usr/bin/env python3
"""C11: editing user info / host / port through ONE authority handle changes exactly that sub-component and
keeps the handle's own view coherent after every call."""
import os, sys, json, random, itertools
sys.path.insert(0, os.path.dirname(os.path.abspath(__file__)))
from vlib import *
from gen import Gen
import spec

def H(x):
    return '~' if x is None else hexs(x)
def E(x):
    return None if x is None else x.encode()

def main():
    R = Result('C11', 'proof')
    rnd = random.Random(R.seed)
    thorough = R.tier == 'thorough'
    R.assumptions = ['Coq kernel', 'hand-written L0 model coq/AuthMut.v of common/authority_mut.rs + parse::find_port, tied to the code by this run',
                     'extraction + ocamlopt', 'Rust harness']
    props_check(R, 'C11')
    st = setup_check(R)
    if st is None:
        return R.finish()
    cdir, harness, model = st
    cases = []
    def respell(x):
        # the same octets spelled differently: the first ASCII letter or digit outside an escape is percent-encoded (== holds, the text differs)
        if not x or x.startswith('['): return None
        i = 0
        while i < len(x):
            if x[i] == '%': i += 3; continue
            if x[i].isascii() and x[i].isalnum(): return x[:i] + '%%%02X' % ord(x[i]) + x[i + 1:]
            i += 1
        return None
    def mkops(g, n, a0=None):
        ops = []; cur = dict(a0 or {})
        for _ in range(n):
            k = g.pick(['au', 'ah', 'ap'])
            key = {'au': 'userinfo', 'ah': 'host', 'ap': 'port'}[k]
            if k == 'au':
                v = g.pick([None, '', 'u', 'longer-user:pw', g.userinfo()])
            elif k == 'ah':
                v = g.pick(['', 'h', 'much.longer.host.example', '[::1]', '[v1.a:b]', g.host()])
            else:
                v = g.pick([None, '', '8', '8080', g.port()])
            if k != 'ap' and g.r.random() < 0.2:
                # a new value that is == the current one but not the same text (a setter must still write it)
                alt = respell(cur.get(key)) or (cur.get(key).swapcase() if cur.get(key) and not cur.get(key).startswith('[') and '%' not in cur.get(key) else None)
                if alt is not None and alt != cur.get(key): v = alt
            cur[key] = v
            ops.append((k, v))
        return ops
    n = 60000 if thorough else 3000
    for fam in ('uri', 'iri'):
        g = Gen(random.Random(rnd.random()), fam)
        for _ in range(n // 2):
            a = g.authority_parts()
            pre = g.pick(['//', 's://', 'http://'])
            post = g.path('abempty', nseg=g.pick([0, 1, 2])) + g.pick(['', '?q', '#f', '?q@x:1#f:2@y', '?' + 'k' * 300])
            kind = fam + ('ref' if pre == '//' or g.r.random() < 0.5 else '')
            cases.append((kind, pre, a, post, mkops(g, g.pick([1, 2, 2, 3, 4, 6]), a)))
    if thorough:
        uis = [None, '', 'u:p']; hosts = ['', 'h', '[::1]']; ports = [None, '', '80']
        vals = {'au': [None, '', 'x', 'longer-user'], 'ah': ['', 'hh', '[::2]'], 'ap': [None, '', '9', '65535']}
        for u, h, p in itertools.product(uis, hosts, ports):
            for o1, o2 in itertools.product(['au', 'ah', 'ap'], repeat=2):
                for v1 in vals[o1]:
                    for v2 in vals[o2]:
                        cases.append(('uriref', 's://', {'userinfo': u, 'host': h, 'port': p}, '/p?q', [(o1, v1), (o2, v2)]))
    lines = []
    for kind, pre, a, post, ops in cases:
        text = pre + Gen.acompose(a) + post
        lines.append('authops\t%s\t%s\t%s' % (kind, hexs(text), '\t'.join('%s:%s' % (k, H(E(v))) for k, v in ops)))
    impl = run_lines(harness, lines)
    mod = run_lines(model, lines)
    nviol = 0; diffs = 0; classes = set()
    for (kind, pre, a, post, ops), line, io, mo in zip(cases, lines, impl, mod):
        cur = dict(a); pr = []
        secs = io.split('\t|\t')
        views = secs[0].split('\t') if len(secs) == 3 else []
        if io in ('PANIC', 'ERR', 'NOAUTH') or len(secs) != 3 or len(views) != len(ops):
            pr.append('panic / handle not obtained / wrong number of views: ' + io[:80])
        else:
            for i, ((k, v), view) in enumerate(zip(ops, views)):
                cur[{'au': 'userinfo', 'ah': 'host', 'ap': 'port'}[k]] = v
                want = [hexs(Gen.acompose(cur)), H(E(cur['userinfo'])), hexs(cur['host']), H(E(cur['port']))]
                if view.split('/') != want:
                    pr.append('after call %d (%s %r) the handle views %s, the authority should be %r' % (i + 1, k, v, view, Gen.acompose(cur)))
                    break
            final = (pre + Gen.acompose(cur) + post).encode()
            if secs[1] != hexs(Gen.acompose(cur)):
                pr.append('into_authority() is not the new authority')
            f = secs[2].split('\t')
            if unhex(f[0]) != final:
                pr.append('enclosing text is %r, expected %r (only the edited sub-components may change)' % (unhex(f[0]), final))
            if f[1] != '1':
                pr.append('result does not re-parse')
        classes.add((kind, tuple(k for k, _ in ops)[:3], a['userinfo'] is None, a['host'][:1] == '[', a['port'] is None,
                     tuple((v is None) if k != 'ah' else (v[:1] == '[') for k, v in ops)[:3]))
        if pr:
            nviol += 1
            if nviol <= 300:
                R.violation({'kind': 'authority handle: wrong sub-component edit or incoherent handle view', 'type': kind, 'buffer': pre + Gen.acompose(a) + post,
                             'calls': [[k, v] for k, v in ops], 'problems': pr, 'implementation': io, 'model': mo,
                             'replay': "printf '%s\\n' | %s" % (line.replace('\t', '\\t'), harness)}, no_input=False)
        strip = lambda s: '\t'.join(x for i, x in enumerate(s.split('\t')) if not (x in ('0', '1', '-') and i > 0))
        if strip(io) != strip(mo):
            diffs += 1
            if diffs <= 5:
                R.extra.setdefault('correspondence_diffs', []).append({'case': line, 'impl': io, 'model': mo})
    if diffs and not R.violations:
        R.violation({'kind': 'correspondence broken: the handle model and the implementation disagree, but every implementation output satisfied the oracle',
                     'first': R.extra.get('correspondence_diffs', [])[:3]}, no_input=True)
    R.cov['evaluations'] = len(cases)
    R.cov['distinct_nontrivial'] = len(classes)
    R.cov['rule'] = ('references with an authority (user info absent/empty/with colon, host kinds incl. IP literals, port absent/empty/digits; following path/query/fragment incl. '
                     '"@" and ":" after the authority and long tails) x sequences of 1-6 set_userinfo/set_host/set_port calls through one handle (values, removals, longer and '
                     'shorter); the view is read after every call; distinct_nontrivial = distinct (type, call kinds, initial shape, argument shapes)')
    R.cov['samples'] = [{'case': l.replace('\t', ' '), 'impl': io.replace('\t', ' ')[:300]} for l, io in list(zip(lines, impl))[::max(1, len(lines) // 6)]][:6]
    R.cov['trusted_base'] = R.assumptions
    R.extra.update({'model_vs_impl_differences': diffs, 'tree': os.path.basename(cdir)})
    return R.finish()

if __name__ == '__main__':
    sys.exit(main())
