#!/usr/bin/env python3
"""C05: setters change exactly the targeted component (only the three documented disambiguations allowed)."""
import os, sys, json, random
sys.path.insert(0, os.path.dirname(os.path.abspath(__file__)))
from vlib import *
from gen import Gen, small_refs
import spec

def H(x):
    return '~' if x is None else hexs(x)

def permitted(has_scheme, has_auth, requested, written):
    if written == requested:
        return 'as-is'
    if has_auth and not requested.startswith(b'/') and written == b'/' + requested:
        return 'slash'
    if not has_auth and requested.startswith(b'//') and written == b'/.' + requested:
        return 'slashdot'
    if not has_scheme and not has_auth and b':' in requested.split(b'/')[0] and written == b'./' + requested:
        return 'dotslash'
    return None

def fields(snap):
    f = snap.split('\t')
    g = lambda x: None if x == '~' else unhex(x)
    return {'text': unhex(f[0]), 'valid': f[1], 'scheme': g(f[2]), 'authority': g(f[3]), 'path': unhex(f[4]), 'query': g(f[5]), 'fragment': g(f[6])}

COMP = {'ss': 'scheme', 'sa': 'authority', 'sp': 'path', 'sq': 'query', 'sf': 'fragment'}

def oracle(before, after, code, val):
    """problems of one setter call, judged on the implementation's own read-back"""
    pr = []
    comp = COMP[code]
    if after['valid'] != '1':
        pr.append('result does not re-parse as the same type')
    if spec.parse(after['text']) != (after['scheme'], after['authority'], after['path'], after['query'], after['fragment']):
        pr.append('result is ambiguous: accessors disagree with RFC 3986 appendix B on the new text')
    for c in ('scheme', 'authority', 'query', 'fragment'):
        want = val if c == comp else before[c]
        if after[c] != want:
            pr.append('%s reads back %r, expected %r' % (c, after[c], want))
    requested = val if comp == 'path' else before['path']
    how = permitted(after['scheme'] is not None, after['authority'] is not None, requested, after['path'])
    if how is None:
        pr.append('path reads back %r; requested %r (no permitted disambiguation explains the difference)' % (after['path'], requested))
    return pr, how

def respell(x):
    """the same octets spelled differently: the first ASCII letter or digit outside an escape is percent-encoded"""
    i = 0
    while i < len(x):
        if x[i] == '%': i += 3; continue
        if x[i].isascii() and x[i].isalnum(): return x[:i] + '%%%02X' % ord(x[i]) + x[i + 1:]
        i += 1
    return None
def respell_auth(x):
    at = x.rfind('@'); hp = x[at + 1:]
    if not hp.startswith('['):
        c = hp.rfind(':'); host = hp[:c] if c >= 0 else hp
        r = respell(host) if host else None
        if r is not None: return x[:at + 1] + r + hp[len(host):]
    if at >= 0:
        r = respell(x[:at])
        if r is not None: return r + x[at:]
    return None

def main():
    R = Result('C05', 'proof')
    rnd = random.Random(R.seed)
    thorough = R.tier == 'thorough'
    R.assumptions = ['Coq kernel', 'hand-written L0 model coq/Splice.v, Setters.v, SetPath.v, SetAuth.v, SetScheme.v, Reference.v(set_fragment) of utils.rs and the '
                     'setters of common/reference.rs, tied to the code by this run', 'extraction + ocamlopt', 'Rust harness']
    props_check(R, 'C05')
    st = setup_check(R)
    if st is None:
        return R.finish()
    cdir, harness, model = st
    cases = []
    PATHS = ['', '/', 'x', '/x', 'a/b', '//x', '//', '///', 'a:b', '1a:b', ':', './a:b', 'a/b:c', '../x', '.', '/.//x', '%2F:x', 'é:x']
    AUTHS = [None, '', 'h', 'u@h:1', '[::1]:80', 'u:p@']
    SCHEMES = [None, 's', 'http', 'a+b']
    QS = [None, '', 'q', 'a:b/c?d']
    def values(g, code, kind):
        if code == 'ss':
            v = [x for x in SCHEMES if not (x is None and kind in ('uri', 'iri'))] + [g.scheme()]
        elif code == 'sa':
            v = AUTHS + [g.authority()]
        elif code == 'sp':
            v = [x for x in PATHS if g.fam == 'iri' or all(ord(c) < 128 for c in x)] + [g.anypath(), g.anypath()]
        elif code == 'sq':
            v = QS + [g.query()]
        else:
            v = QS + [g.fragment()]
        return v
    n = 30000 if thorough else 900
    for fam in ('uri', 'iri'):
        g = Gen(random.Random(rnd.random()), fam)
        bufs = [g.parts() for _ in range(n)]
        if thorough and fam == 'uri':
            bufs += [dict(zip(('scheme', 'authority', 'path', 'query', 'fragment'), [None if x is None else x.decode() for x in spec.parse(s.encode())])) for s in small_refs(nmax=2)]
        for p in bufs:
            text = Gen.compose(p)
            kinds = [fam + 'ref'] + ([fam] if p['scheme'] is not None and g.r.random() < 0.5 else [])
            for kind in kinds:
                for code in ('ss', 'sa', 'sp', 'sq', 'sf'):
                    vals = values(g, code, kind)
                    for v in (vals if thorough else g.r.sample(vals, min(3, len(vals)))):
                        cases.append((kind, text.encode(), code, None if v is None else v.encode()))
                    # a new value that is == the current component but spelled differently (one character percent-encoded): it must be written
                    cur = p[COMP[code]]
                    if code != 'ss' and cur and g.r.random() < 0.5:
                        alt = respell_auth(cur) if code == 'sa' else respell(cur)
                        if alt is not None: cases.append((kind, text.encode(), code, alt.encode()))
    lines = ['set\t%s\t%s\t%s:%s' % (k, hexs(b), c, H(v)) for k, b, c, v in cases]
    impl = run_lines(harness, lines)
    mod = run_lines(model, lines)
    nviol = 0; diffs = 0; classes = set(); hist = {}
    for (kind, b, code, v), line, io, mo in zip(cases, lines, impl, mod):
        parts = io.split('\t|\t')
        if io == 'ERR':
            continue   # the generator produced an argument outside its type (counted below)
        if len(parts) != 2 or 'PANIC' in io:
            nviol += 1
            if nviol <= 300:
                R.violation({'kind': 'setter panicked', 'type': kind, 'buffer': b.decode('utf-8', 'replace'), 'setter': COMP[code], 'value': None if v is None else v.decode('utf-8', 'replace'),
                             'implementation': io, 'replay': "printf '%s\\n' | %s" % (line.replace('\t', '\\t'), harness)}, no_input=False)
            continue
        before, after = fields(parts[0]), fields(parts[1])
        pr, how = oracle(before, after, code, v)
        hist[how] = hist.get(how, 0) + 1
        classes.add((kind, code, v is None, before[COMP[code]] is None if code != 'sp' else None, before['scheme'] is None, before['authority'] is None,
                     before['path'][:2] == b'//', before['path'][:1] == b'/', before['path'] == b'', how))
        if pr:
            nviol += 1
            if nviol <= 300:
                R.violation({'kind': 'setter changed more (or something else) than the targeted component', 'type': kind, 'buffer': b.decode('utf-8', 'replace'),
                             'setter': 'set_' + COMP[code], 'value': None if v is None else v.decode('utf-8', 'replace'), 'result': after['text'].decode('utf-8', 'replace'),
                             'problems': pr, 'implementation': io, 'model': mo, 'replay': "printf '%s\\n' | %s" % (line.replace('\t', '\\t'), harness)}, no_input=False)
        mp = mo.split('\t|\t')
        same = len(mp) == 2 and all(x.split('\t')[0:1] + x.split('\t')[2:] == y.split('\t')[0:1] + y.split('\t')[2:] for x, y in zip(parts, mp))
        if not same:
            diffs += 1
            if diffs <= 5:
                R.extra.setdefault('correspondence_diffs', []).append({'case': line, 'buffer': b.decode('utf-8', 'replace'), 'impl': io, 'model': mo})
    if diffs and not R.violations:
        R.violation({'kind': 'correspondence broken: the setter model and the implementation disagree, but every implementation output satisfied the oracle',
                     'first': R.extra.get('correspondence_diffs', [])[:3]}, no_input=True)
    R.cov['evaluations'] = len(cases)
    R.cov['distinct_nontrivial'] = len(classes)
    R.cov['rule'] = ('(valid buffer from RFC components, setter, valid value incl. removal and the ambiguity-prone values //x, a:b, 1a:b, "", relative paths next to an '
                     'authority); both families, reference and absolute types; distinct_nontrivial = distinct (type, setter, removal?, component was absent?, scheme?, '
                     'authority?, path shape, disambiguation applied)')
    R.cov['samples'] = [{'type': c[0], 'buffer': c[1].decode('utf-8', 'replace'), 'op': c[2], 'value': None if c[3] is None else c[3].decode('utf-8', 'replace'),
                         'result': (fields(io.split('\t|\t')[1])['text'].decode('utf-8', 'replace') if '\t|\t' in io and 'PANIC' not in io else io)}
                        for c, io in list(zip(cases, impl))[::max(1, len(cases) // 10)]][:10]
    R.cov['trusted_base'] = R.assumptions
    R.extra.update({'disambiguation_histogram': {str(k): v for k, v in hist.items()}, 'model_vs_impl_differences': diffs,
                    'argument_rejected_by_its_type': sum(1 for x in impl if x == 'ERR'), 'tree': os.path.basename(cdir)})
    return R.finish()

if __name__ == '__main__':
    sys.exit(main())
