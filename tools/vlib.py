#!/usr/bin/env python3
"""Shared machinery of the /verif checks: tree hash, scratch build of /repo (never in place), cache,
Coq/OCaml invocation, evidence and verdict printing.  Python 3 standard library only."""
import os, sys, json, hashlib, subprocess, tempfile, shutil, time, fcntl, random, re

VERIF = os.path.dirname(os.path.dirname(os.path.abspath(__file__)))
REPO = os.environ.get('VERIF_REPO', '/repo')
CACHE = os.path.join(VERIF, '.cache')
COQ = os.path.join(VERIF, 'coq')
EVID = os.environ.get('VERIF_EVID') or os.path.join(VERIF, 'evidence')
REPLAY = os.path.join(EVID, 'replay')
FEATURES = 'serde,data,macros'
GUARD = 'iref_verif'
ENV = dict(os.environ, CARGO_NET_OFFLINE='true', RUSTFLAGS=(os.environ.get('RUSTFLAGS', '') + ' --cfg ' + GUARD).strip())

def log(*a):
    print(*a, file=sys.stderr, flush=True)

def sh(cmd, timeout=1800, cwd=None, env=None, check=True, inp=None):
    """run a command (list), return (rc, stdout, stderr) as text"""
    try:
        txt = isinstance(inp, str) or inp is None
        kw = dict(text=True, errors='replace') if txt else {}     # output that is not UTF-8 (e.g. a value printed from ill-formed text) must not crash the check
        p = subprocess.run(cmd, cwd=cwd, env=env or ENV, input=inp, stdout=subprocess.PIPE, stderr=subprocess.PIPE,
                           timeout=timeout, **kw)
    except subprocess.TimeoutExpired as e:
        if check:
            raise
        return 124, (e.stdout or ''), 'TIMEOUT'
    if check and p.returncode != 0:
        raise RuntimeError('command failed (%d): %s\n%s\n%s' % (p.returncode, ' '.join(cmd), p.stdout[-4000:], p.stderr[-4000:]))
    return p.returncode, p.stdout, p.stderr

# ---------------------------------------------------------------------------------------------
# tree hash and scratch build

SKIP_DIRS = {'.git', 'target'}

def repo_files():
    out = []
    for root, dirs, files in os.walk(REPO):
        dirs[:] = sorted(d for d in dirs if d not in SKIP_DIRS)
        for f in sorted(files):
            out.append(os.path.join(root, f))
    return out

def tree_hash():
    h = hashlib.sha256()
    for p in repo_files():
        h.update(os.path.relpath(p, REPO).encode() + b'\0')
        try:
            with open(p, 'rb') as f:
                h.update(hashlib.sha256(f.read()).digest())
        except OSError:
            h.update(b'?')
    # the harness and the translator are part of what is built
    for extra in ('harness/src/main.rs', 'harness/src/ops2.rs', 'harness/src/ops3.rs', 'harness/src/ops4.rs', 'harness/Cargo.toml.in', 'tools/expand2dfa.py'):
        with open(os.path.join(VERIF, extra), 'rb') as f:
            h.update(hashlib.sha256(f.read()).digest())
    return h.hexdigest()[:24]

class Lock:
    def __init__(self, name):
        os.makedirs(CACHE, exist_ok=True)
        self.path = os.path.join(CACHE, name + '.lock')
    def __enter__(self):
        self.f = open(self.path, 'w')
        fcntl.flock(self.f, fcntl.LOCK_EX)
        return self
    def __exit__(self, *a):
        fcntl.flock(self.f, fcntl.LOCK_UN)
        self.f.close()

def prune_cache(keep):
    ents = []
    for d in os.listdir(CACHE):
        p = os.path.join(CACHE, d)
        if os.path.isdir(p) and re.fullmatch(r'[0-9a-f]{24}', d) and d != keep:
            ents.append((os.path.getmtime(p), p))
    ents.sort(reverse=True)
    for _, p in ents[7:]:
        shutil.rmtree(p, ignore_errors=True)

def build_tree(need_release=False):
    """Returns the cache directory for the current /repo working tree, holding
         harness (dev-profile binary), expanded.rs, GenDfa.v, dfa.json.
       Builds in a scratch copy under $TMPDIR which is removed afterwards."""
    th = tree_hash()
    cdir = os.path.join(CACHE, th)
    with Lock('build'):
        if os.path.exists(os.path.join(cdir, 'ok')) and (not need_release or os.path.exists(os.path.join(cdir, 'harness-release'))):
            os.utime(cdir)
            return cdir
        t0 = time.time()
        os.makedirs(cdir, exist_ok=True)
        tmp = tempfile.mkdtemp(prefix='iref-verif-')
        try:
            src = os.path.join(tmp, 'repo')
            sh(['rsync', '-a', '--exclude', '/target', '--exclude', '/.git', REPO + '/', src + '/'])
            if not os.path.exists(os.path.join(src, 'Cargo.lock')) and os.path.exists('/repo/Cargo.lock'):
                shutil.copy('/repo/Cargo.lock', os.path.join(src, 'Cargo.lock'))   # untracked file: absent from a git worktree
            hdir = os.path.join(tmp, 'harness')
            shutil.copytree(os.path.join(VERIF, 'harness'), hdir)
            with open(os.path.join(hdir, 'Cargo.toml.in')) as f:
                toml = f.read().replace('@REPO@', src)
            with open(os.path.join(hdir, 'Cargo.toml'), 'w') as f:
                f.write(toml)
            shutil.copy(os.path.join(src, 'Cargo.lock'), os.path.join(hdir, 'Cargo.lock'))
            env = dict(ENV, CARGO_TARGET_DIR=os.path.join(tmp, 'target'))
            if not os.path.exists(os.path.join(cdir, 'ok')):
                rc, out, err = sh(['cargo', 'build', '--offline', '-j', '16'], cwd=hdir, env=env, timeout=1500, check=False)
                if rc != 0:
                    with open(os.path.join(cdir, 'build-error.txt'), 'w') as f:
                        f.write(err)
                    raise BuildError(err[-6000:])
                shutil.copy(os.path.join(tmp, 'target', 'debug', 'ivh'), os.path.join(cdir, 'harness'))
                # macro expansion of iref-core: what rustc actually compiles
                env2 = dict(env, RUSTC_BOOTSTRAP='1')
                rc, out, err = sh(['cargo', 'rustc', '-p', 'iref-core', '--lib', '--offline', '--features', 'serde,data',
                                   '--', '-Zunpretty=expanded'], cwd=src, env=env2, timeout=1500, check=False)
                if rc != 0:
                    raise BuildError(err[-6000:])
                with open(os.path.join(cdir, 'expanded.rs'), 'w') as f:
                    f.write(out)
                sh([sys.executable, os.path.join(VERIF, 'tools', 'expand2dfa.py'), os.path.join(cdir, 'expanded.rs'), cdir])
                with open(os.path.join(cdir, 'ok'), 'w') as f:
                    f.write('%.1f\n' % (time.time() - t0))
            if need_release and not os.path.exists(os.path.join(cdir, 'harness-release')):
                sh(['cargo', 'build', '--offline', '--release', '-j', '16'], cwd=hdir, env=env, timeout=1500)
                shutil.copy(os.path.join(tmp, 'target', 'release', 'ivh'), os.path.join(cdir, 'harness-release'))
        finally:
            shutil.rmtree(tmp, ignore_errors=True)
        prune_cache(th)
        log('[build] tree %s built in %.1fs' % (th, time.time() - t0))
    return cdir

class BuildError(Exception):
    pass

# ---------------------------------------------------------------------------------------------
# Coq

def coq_build(targets=None, timeout=2400):
    """(re)build the static Coq development (full .vo build).  Returns (ok, log)."""
    with Lock('coq'):
        if not os.path.exists(os.path.join(COQ, 'Makefile')):
            sh(['coq_makefile', '-f', '_CoqProject', '-o', 'Makefile'], cwd=COQ)
        cmd = ['make', '-j16'] + (targets or [])
        rc, out, err = sh(cmd, cwd=COQ, timeout=timeout, check=False)
        return rc == 0, out + err

def coqc(path, extra_q=(), timeout=900):
    """compile one generated .v file that lives outside the static project"""
    cmd = ['coqc', '-noglob', '-Q', COQ, 'V']
    for d, n in extra_q:
        cmd += ['-Q', d, n]
    cmd.append(path)
    rc, out, err = sh(cmd, cwd=os.path.dirname(path), timeout=timeout, check=False)
    return rc, out, err

FORBIDDEN = re.compile(r'\b(Admitted|admit|Axiom|Axioms|Parameter|Parameters|Conjecture|Hypothesis|Variable|Unset\s+Guard|bypass_check|Admit\s+Obligations|type-in-type|impredicative-set)\b')

def audit_sources():
    """No Admitted / Axiom / Parameter / ... anywhere; Variable/Hypothesis only inside a Section."""
    bad = []
    for fn in sorted(os.listdir(COQ)):
        if not fn.endswith('.v'):
            continue
        depth = 0
        text = open(os.path.join(COQ, fn)).read()
        text = re.sub(r'\(\*.*?\*\)', lambda m: '\n' * m.group(0).count('\n'), text, flags=re.S)
        for ln, line in enumerate(text.split('\n'), 1):
            if re.match(r'\s*Section\b', line):
                depth += 1
            if re.match(r'\s*End\b', line) and depth > 0:
                depth -= 1
            for m in FORBIDDEN.finditer(line):
                w = m.group(1)
                if w in ('Variable', 'Hypothesis') and depth > 0:
                    continue
                if w in ('Variable', 'Hypothesis', 'Parameter', 'Parameters') and not re.match(r'\s*(Variable|Hypothesis|Parameter|Parameters)\b', line):
                    continue
                bad.append('%s:%d: %s' % (fn, ln, line.strip()[:100]))
    return bad

def assumptions_closed(text):
    """every `Print Assumptions` in a coqc output must say 'Closed under the global context'"""
    n_closed = text.count('Closed under the global context')
    n_axioms = len(re.findall(r'^Axioms:', text, flags=re.M))
    return n_closed, n_axioms

# ---------------------------------------------------------------------------------------------
# harness / model drivers

def hexs(b):
    if isinstance(b, str):
        b = b.encode('utf-8')
    return b.hex() if b else '-'

def unhex(s):
    if s == '-':
        return b''
    try:
        return bytes.fromhex(s)
    except ValueError:       # a token such as PANIC where a value was expected: keep it visible, it can never equal a real value
        return ('<' + s[:60] + '>').encode()

def run_lines(binary, lines, timeout=1800, shards=16):
    """feed case lines to a line-oriented binary, in parallel shards; returns the output lines in order"""
    if not lines:
        return []
    n = max(1, min(shards, len(lines) // 200 + 1))
    chunks = [lines[i::n] for i in range(n)]
    procs = []
    for ch in chunks:
        p = subprocess.Popen(binary if isinstance(binary, list) else [binary], stdin=subprocess.PIPE, stdout=subprocess.PIPE,
                             stderr=subprocess.DEVNULL, text=True, errors='replace', env=ENV)
        procs.append(p)
    import threading
    outs = [None] * n
    def work(i):
        o, _ = procs[i].communicate('\n'.join(chunks[i]) + '\n', timeout=timeout)
        outs[i] = o.split('\n')
        if outs[i] and outs[i][-1] == '':
            outs[i].pop()
    th = [threading.Thread(target=work, args=(i,)) for i in range(n)]
    [t.start() for t in th]
    [t.join() for t in th]
    res = [None] * len(lines)
    for i in range(n):
        if len(outs[i]) != len(chunks[i]):
            raise RuntimeError('%s: %d lines in, %d lines out (crash?)' % (binary, len(chunks[i]), len(outs[i])))
        for j, o in enumerate(outs[i]):
            res[i + j * n] = o
    # self-test of the check scripts (never set by a registered command): every k-th answer of the implementation becomes a
    # bare PANIC token; every script must then report violations with inputs instead of failing to parse
    k = int(os.environ.get('VERIF_SELFTEST_PANIC', '0') or 0)
    if k and 'harness' in str(binary):
        res = ['PANIC' if (i % k == k - 1 and not r.startswith('ERR')) else r for i, r in enumerate(res)]
    return res

def model_bin():
    return os.path.join(VERIF, 'ocaml', 'driver.exe')

# ---------------------------------------------------------------------------------------------
# known findings, evidence, verdicts

def known_findings(pid):
    p = os.path.join(VERIF, 'known_findings.json')
    if not os.path.exists(p):
        return []
    return [k for k in json.load(open(p)).get('findings', []) if k.get('property') == pid and k.get('status', 'open') == 'open']

class Result:
    def __init__(self, pid, level='proof'):
        self.pid = pid
        self.level = level
        self.t0 = time.time()
        self.tier = os.environ.get('VERIF_TIER', 'quick')
        if self.tier not in ('quick', 'thorough'):
            self.tier = 'quick'
        self.seed = int(os.environ.get('VERIF_SEED', '20260928') or 0)
        self.cov = {'obligations': 0, 'discharged': 0, 'checker_cmd': '', 'trusted_base': [], 'evaluations': 0,
                    'distinct_nontrivial': 0, 'rule': '', 'samples': []}
        self.assumptions = []
        self.violations = []      # (replay dict, no_input bool)
        self.known = []
        self.extra = {}
    def violation(self, replay, no_input=False):
        self.violations.append((replay, no_input))
    def known_finding(self, what):
        if what not in self.known:
            self.known.append(what)
    def finish(self):
        os.makedirs(REPLAY, exist_ok=True)
        for old in os.listdir(REPLAY):
            if old.startswith(self.pid + '-'):
                os.remove(os.path.join(REPLAY, old))
        for what in self.known:
            print('KNOWN-FINDING: property=%s %s' % (self.pid, what))
        lines = []
        # the smallest failing cases first (a poor man's shrinker: the generators produce many sizes)
        self.violations.sort(key=lambda v: (v[1], len(json.dumps(v[0], ensure_ascii=True))))
        for i, (rep, no_input) in enumerate(self.violations[:10]):
            path = os.path.join(REPLAY, '%s-%d.json' % (self.pid, i))
            with open(path, 'w') as f:
                json.dump(rep, f, indent=1, ensure_ascii=True)
            lines.append('VIOLATION property=%s replay=%s%s' % (self.pid, path, ' no-failing-input-found' if no_input else ''))
        ev = {'property_id': self.pid, 'tier': self.tier, 'seed': self.seed, 'level': self.level,
              'coverage': dict(self.cov, **self.extra), 'assumptions': self.assumptions,
              'wall_s': round(time.time() - self.t0, 2), 'violations': len(self.violations)}
        os.makedirs(EVID, exist_ok=True)
        with open(os.path.join(EVID, self.pid + '.json'), 'w') as f:
            json.dump(ev, f, indent=1, ensure_ascii=True)
        for l in lines:
            print(l)
        sys.stdout.flush()
        return 1 if self.violations else 0

# ---------------------------------------------------------------------------------------------
# property theorem files (coq/Cxx.v): always recompiled so that Print Assumptions is re-read

CERT_MODULES = ['BridgePaths', 'C02Bridge', 'C03Bridge', 'C13Proofs', 'C13Ascii', 'FactorI', 'FactorU', 'PathGrammarInst', 'PctWf', 'ValidSetInst']
CERT_RECORD = os.path.join(VERIF, 'coqchk_certs.json')

def coqchk_clean(rc, txt):
    """coqchk verdict: exit 0, no type-in-type / unsafe fixpoints / assumed positivity, and no axiom other than the fields of the standard
    library's sealed module Coq.ssr.ssrunder.Under_rel (coqchk lists these opaque module fields as 'axioms' as soon as some module is
    passed with -admit; they are part of Coq's ssreflect prelude, not declarations of this development)."""
    if rc != 0 or not re.search(r'type-in-type:\s*<none>', txt) or not re.search(r'unsafe \(co\)fixpoints:\s*<none>', txt) or not re.search(r'positivity is assumed:\s*<none>', txt):
        return False
    m = re.search(r'\* Axioms:(.*?)\n\s*\n\* ', txt, flags=re.S)
    if not m:
        return False
    names = [x.strip() for x in m.group(1).split('\n') if x.strip()]
    names = [x for x in names if x != '<none>' and not x.startswith('Coq.ssr.ssrunder.Under_rel.')]
    return not names

def coq_deps(name, seen=None):
    """transitive V.* dependencies of coq/<name>.v (names without prefix), from its Require lines"""
    seen = set() if seen is None else seen
    if name in seen:
        return seen
    seen.add(name)
    fn = os.path.join(COQ, name + '.v')
    if not os.path.exists(fn):
        return seen
    src = re.sub(r'\(\*.*?\*\)', '', open(fn).read(), flags=re.S)
    for m in re.finditer(r'Require\s+(?:Import\s+|Export\s+)?(.*?)\.\s', src, flags=re.S):
        for tok in m.group(1).split():
            if tok.startswith('V.'):
                coq_deps(tok[2:], seen)
    return seen

def cert_key(mods):
    h = hashlib.sha256()
    allm = set()
    for m in mods:
        coq_deps(m, allm)
    for m in sorted(allm):
        fn = os.path.join(COQ, m + '.v')
        if os.path.exists(fn):
            h.update(m.encode()); h.update(open(fn, 'rb').read())
    return h.hexdigest()[:24]

def coqchk_certs(mods):
    """coqchk of the certificate modules, content-addressed: a committed record (coqchk_certs.json) or a cached run for exactly these
    sources is reused; otherwise the (long) run is made now and cached."""
    if not mods:
        return {'clean': True, 'how': 'none needed'}
    out = {'clean': True, 'how': '', 'modules': {}}
    rec = json.load(open(CERT_RECORD)) if os.path.exists(CERT_RECORD) else {}
    cdir = os.path.join(CACHE, 'coqchk'); os.makedirs(cdir, exist_ok=True)
    for m in mods:
        k = cert_key([m])
        r = rec.get(m)
        if r and r.get('key') == k and r.get('clean'):
            out['modules'][m] = {'key': k, 'from': 'committed record coqchk_certs.json', 'seconds': r.get('seconds')}
            continue
        cf = os.path.join(cdir, m + '-' + k + '.json')
        if os.path.exists(cf):
            r = json.load(open(cf))
        else:
            t0 = time.time()
            rc, o, e = sh(['coqchk', '-o', '-silent', '-Q', COQ, 'V', 'V.' + m], cwd=COQ, timeout=14000, check=False)
            txt = o + e
            cl = bool(rc == 0 and re.search(r'Axioms:\s*<none>', txt) and re.search(r'type-in-type:\s*<none>', txt) and re.search(r'unsafe \(co\)fixpoints:\s*<none>', txt) and re.search(r'positivity is assumed:\s*<none>', txt))
            r = {'key': k, 'clean': cl, 'seconds': round(time.time() - t0), 'tail': txt[-600:]}
            json.dump(r, open(cf, 'w'))
        out['modules'][m] = {'key': k, 'from': 'run / cache', 'seconds': r.get('seconds')}
        if not r.get('clean'):
            out['clean'] = False; out['failed'] = m; out['tail'] = r.get('tail')
    out['how'] = 'coqchk -o -silent V.<module> per certificate module, content-addressed (' + ', '.join('%s:%s' % (m, v['from'].split()[0]) for m, v in out['modules'].items()) + ')'
    return out

def props_check(R, name, extra_targets=()):
    """Recompile coq/<name>.v (after its dependencies), require every Print Assumptions to be closed.
       Records obligations/discharged in R.cov; returns True when everything checked."""
    bad = audit_sources()
    if bad:
        R.violation({'kind': 'forbidden-construct in the Coq development', 'where': bad}, no_input=True)
        return False
    with Lock('coq'):
        if not os.path.exists(os.path.join(COQ, 'Makefile')):
            sh(['coq_makefile', '-f', '_CoqProject', '-o', 'Makefile'], cwd=COQ)
        vo = os.path.join(COQ, name + '.vo')
        if os.path.exists(vo):
            os.remove(vo)
        rc, out, err = sh(['make', '-j16', name + '.vo'] + list(extra_targets), cwd=COQ, timeout=3000, check=False)
    text = out + err
    src = open(os.path.join(COQ, name + '.v')).read()
    src_nc = re.sub(r'\(\*.*?\*\)', '', src, flags=re.S)
    n_thm = len(re.findall(r'^\s*(Theorem|Corollary)\s', src_nc, flags=re.M))
    n_pa = len(re.findall(r'^\s*Print Assumptions\s', src_nc, flags=re.M))
    closed, axioms = assumptions_closed(text)
    R.cov['obligations'] += n_thm
    ok = rc == 0 and axioms == 0 and closed >= n_pa and n_pa >= n_thm
    if ok:
        R.cov['discharged'] += n_thm
    else:
        R.violation({'kind': 'theorem file coq/%s.v no longer checks' % name, 'rc': rc, 'theorems': n_thm, 'print_assumptions': n_pa,
                     'closed': closed, 'axiom_reports': axioms, 'log': text[-3000:]}, no_input=True)
    R.cov['checker_cmd'] = (R.cov.get('checker_cmd') or '') + 'make -C /verif/coq %s.vo (full .vo build, Print Assumptions under every theorem); ' % name
    if ok and R.tier == 'thorough':
        # independent re-check (coqchk) of the compiled property file and everything it depends on.  The modules that hold the
        # reflection certificates (CERT_MODULES) take coqchk 5-25 minutes EACH (it has no VM: every `incl_check r s = true` is
        # re-evaluated by lazy reduction), so they are re-checked by one separate, content-addressed run (coqchk_certs) and
        # admitted here; every other module is re-checked now.
        deps = coq_deps(name)
        admit = [m for m in CERT_MODULES if m in deps]
        cmd = ['coqchk', '-o', '-silent', '-Q', COQ, 'V']
        for m in admit:
            cmd += ['-admit', 'V.' + m]
        rc2, o2, e2 = sh(cmd + ['V.' + name], cwd=COQ, timeout=6000, check=False)
        txt = o2 + e2
        clean = coqchk_clean(rc2, txt)
        cert = coqchk_certs(admit)
        R.extra['coqchk'] = {'module': 'V.' + name, 'rc': rc2, 'axioms_none': bool(clean), 'admitted_here_and_checked_separately': admit, 'certificate_modules': cert}
        R.cov['checker_cmd'] += 'coqchk -o -silent -Q /verif/coq V %s V.%s; certificate modules: %s; ' % (' '.join('-admit V.' + m for m in admit), name, cert.get('how'))
        if not clean:
            R.violation({'kind': 'coqchk does not accept coq/%s.vo or reports axioms / unsafe features' % name, 'output': txt[-2000:]}, no_input=True)
            ok = False
        if not cert.get('clean'):
            R.violation({'kind': 'coqchk does not accept the certificate modules %s' % admit, 'output': str(cert)[-2000:]}, no_input=True)
            ok = False
    R.extra.setdefault('theorems', []).extend(re.findall(r'^\s*(?:Theorem|Corollary)\s+(\w+)', src_nc, flags=re.M))
    return ok

def ensure_model():
    """the OCaml driver is rebuilt whenever the extracted model or the driver sources are newer"""
    with Lock('coq'):
        rc, out, err = sh(['make', '-j16', 'Extract.vo'], cwd=COQ, timeout=3000, check=False)
        if rc != 0:
            raise RuntimeError('Extract.vo does not build:\n' + (out + err)[-3000:])
        od = os.path.join(VERIF, 'ocaml')
        exe = os.path.join(od, 'driver.exe')
        srcs = [os.path.join(od, f) for f in ('model.ml', 'driver.ml', 'ops2.ml')]
        if not os.path.exists(srcs[0]):
            os.remove(os.path.join(COQ, 'Extract.vo'))
            sh(['make', '-j16', 'Extract.vo'], cwd=COQ, timeout=3000)
        if not os.path.exists(exe) or any(os.path.getmtime(s) > os.path.getmtime(exe) for s in srcs):
            sh(['sh', os.path.join(od, 'build.sh')], timeout=900)
    return exe

def setup_check(R, need_model=True):
    """common preamble: scratch build of the tree + model driver.  Returns (cdir, harness, model) or None."""
    try:
        cdir = build_tree()
    except BuildError as e:
        R.violation({'kind': 'the tree does not build', 'stderr': str(e)[-3000:]}, no_input=True)
        return None
    model = ensure_model() if need_model else None
    return cdir, os.path.join(cdir, 'harness'), model

def diff_cases(R, lines, impl, model, label, key=lambda s: s, limit=5):
    """correspondence: model output vs implementation output, case by case"""
    n = 0
    for l, a, b in zip(lines, impl, model):
        if key(a) != key(b):
            n += 1
            if n <= limit:
                R.extra.setdefault('correspondence_diffs', []).append({'case': l, 'impl': a, 'model': b, 'what': label})
    return n
