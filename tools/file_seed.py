#!/usr/bin/env python3
"""file_seed.py <id> [<out base> [<number offset>]]: copies the confirmed seeded changes of <out base>/<id> (default /tmp/mut-out) into /verif/seeded/<id>-<n + offset>/"""
import sys, os, shutil, json, re
pid = sys.argv[1]
base = sys.argv[2] if len(sys.argv) > 2 else '/tmp/mut-out'
off = int(sys.argv[3]) if len(sys.argv) > 3 else 0
src = os.path.join(base, pid)
notes = open(os.path.join(src, 'notes.md')).read() if os.path.exists(os.path.join(src, 'notes.md')) else ''
for n in (1, 2, 3):
    d = os.path.join(src, 'change%d.diff' % n)
    c = os.path.join(src, 'confirm%d.txt' % n)
    if not os.path.exists(d) or not os.path.exists(c):
        continue
    conf = dict(l.strip().split('=') for l in open(c) if '=' in l)
    ok = conf.get('demo_without_change_rc') == '0' and conf.get('demo_with_change_rc') not in (None, '0') and conf.get('suite_with_change_rc') == '0'
    if not ok:
        print('NOT confirmed:', pid, n, conf); continue
    out = '/verif/seeded/%s-%d' % (pid, n + off)
    os.makedirs(out, exist_ok=True)
    shutil.copy(d, os.path.join(out, 'patch.diff'))
    shutil.copy(os.path.join(src, 'demo%d.rs' % n), os.path.join(out, 'demo.rs'))
    # the part of notes.md about this change
    parts = re.split(r'\n(?=#+ .*[Cc]hange\s*%d)' % n, notes)
    mine = parts[1] if len(parts) > 1 else notes
    mine = re.split(r'\n(?=#+ .*[Cc]hange\s*%d)' % (3 - n), mine)[0]
    meta = {'property': pid, 'source': 'independent sub-agent given only the property text and a scratch worktree',
            'what_and_needs_to_manifest': mine.strip()[:3000],
            'confirmed_by': 'tools/confirm_seed.sh in a scratch worktree: demo passes on HEAD, fails with the patch; cargo test --workspace --offline passes with the patch',
            'confirmation': conf, 'detected_by': {}}
    if os.path.exists(os.path.join(out, 'meta.json')):
        meta['detected_by'] = json.load(open(os.path.join(out, 'meta.json'))).get('detected_by', {})
    json.dump(meta, open(os.path.join(out, 'meta.json'), 'w'), indent=1)
    print('filed', out)
