#!/bin/sh
# tools/seedall.sh [workers]: runs every seeded change against the check of its own property (tools/seedmatrix.py), N at a time;
# results go to seeded/*/meta.json (detected_by) and to stdout.  Scratch worktrees only; /repo is never touched.
cd /verif
N=${1:-3}
ls seeded | while read s; do echo "$s ${s%-*}"; done | xargs -P "$N" -L 1 sh -c 'python3 tools/seedmatrix.py "$0" --checks "$1" 2>&1 | grep -v WARNING'
