(* Line-oriented driver around the model extracted from Coq (model.ml).  Same case protocol as the
   Rust harness: tab separated fields, byte strings hex encoded ("-" empty, "~" absent). *)
open Model

let rec nat_of_int i = if i <= 0 then O else S (nat_of_int (i - 1))
let int_of_nat n = let rec go n acc = match n with O -> acc | S m -> go m (acc + 1) in go n 0
let rec pos_of_int i = if i = 1 then XH else if i land 1 = 0 then XO (pos_of_int (i lsr 1)) else XI (pos_of_int (i lsr 1))
let n_of_int i = if i = 0 then N0 else Npos (pos_of_int i)
let rec int_of_pos p = match p with XH -> 1 | XO q -> 2 * int_of_pos q | XI q -> 2 * int_of_pos q + 1
let int_of_n n = match n with N0 -> 0 | Npos p -> int_of_pos p

let hexval c = match c with '0'..'9' -> Char.code c - 48 | 'a'..'f' -> Char.code c - 87 | 'A'..'F' -> Char.code c - 55 | _ -> failwith "hex"
let unhex s = if s = "-" || s = "~" then [] else
  let n = String.length s / 2 in
  List.init n (fun i -> n_of_int (hexval s.[2*i] * 16 + hexval s.[2*i+1]))
let hex (l : n list) = if l = [] then "-" else String.concat "" (List.map (fun c -> Printf.sprintf "%02x" (int_of_n c)) l)
let ohex = function None -> "~" | Some l -> hex l
let opt_arg s = if s = "~" then None else Some (unhex s)

let rng (a, b) = Printf.sprintf "%d:%d" (int_of_nat a) (int_of_nat b)
let orng = function None -> "~" | Some r -> rng r
let rsum = function Inl r -> Some r | Inr _ -> None
let pslice = function InText r -> rng r | Const s -> "!" ^ hex s
let opslice = function None -> "~" | Some s -> pslice s
let b2s b = if b then "1" else "0"
let tab = String.concat "\t"
let comma l = String.concat "," l

let ref_ranges r = tab [orng r.r_scheme; orng r.r_authority; rng r.r_path; orng r.r_query; orng r.r_fragment]

let run (f : string array) : string =
  match f.(0) with
  | "ref" ->
    let b = unhex f.(2) in
    let abs = (f.(1) = "uri" || f.(1) = "iri") in
    let all = if abs then abs_parts b O else reference_parts b O in
    let sch = if abs then Some (scheme_range b O) else find_scheme b O in
    let ind = tab [orng sch; orng (rsum (find_authority b O)); rng (find_path b O); orng (rsum (find_query b O)); orng (rsum (find_fragment b O))] in
    tab [ind; ref_ranges all]
  | "auth" ->
    let b = unhex f.(2) in
    let p = authority_parts b in
    let hr = find_host b O in
    tab [orng (find_user_info b O); rng hr; orng (find_port b O); orng p.a_userinfo; rng p.a_host; orng p.a_port]
  | "path" ->
    let p = unhex f.(2) in
    let script = f.(3) in
    (* an empty constant cannot be told from an empty slice of an empty input *)
    let pslice x = (match x with Const [] when p = [] -> "0:0" | _ -> pslice x) in
    let opslice = function None -> "~" | Some s -> pslice s in
    let st = ref (segments p) in
    let items = ref [] in
    let panic = ref false in
    String.iter (fun c ->
      if not !panic then
      if c = 'f' then (let (r, s') = it_next p !st in st := s'; items := orng r :: !items)
      else (match it_next_back p !st with
            | None -> panic := true
            | Some (r, s') -> st := s'; items := orng r :: !items)) script;
    if !panic then "PANIC" else
    let last = pq_last p and fname = pq_file_name p and rev = pq_segments_rev p in
    (match last, fname, rev with
     | Some last, Some fname, Some rev ->
       let segs_ = pq_segments p in
       let ns = pq_normalized_segments p in
       tab [comma (List.rev !items); b2s (path_is_empty p); b2s (is_abs p); string_of_int (List.length segs_);
            orng (pq_first p); orng last; orng fname; pslice (pq_directory p); opslice (pq_parent p); pslice (pq_parent_or_empty p);
            string_of_int (List.length ns); comma (List.map rng ns); comma (List.map rng segs_); comma (List.map rng rev)]
     | _ -> "PANIC")
  | op -> (match Ops2.run f with Some r -> r | None -> failwith ("unknown op " ^ op))

let () =
  try
    while true do
      let line = input_line stdin in
      let f = Array.of_list (String.split_on_char '\t' line) in
      let r = try run f with Stack_overflow -> "STACK" | Failure m -> "FAIL " ^ m | Not_found -> "FAIL notfound" | Invalid_argument m -> "FAIL " ^ m in
      print_string r; print_char '\n'
    done
  with End_of_file -> ()
