#!/bin/sh
# builds ocaml/driver.exe from the extracted model (model.ml is produced by coq/Extract.v)
set -e
cd "$(dirname "$0")"
[ -f model.ml ] || { echo "model.ml missing: build coq/Extract.vo first"; exit 1; }
ocamlfind ocamlopt -O3 -w -a -package str model.mli model.ml ops2.ml driver.ml -o driver.exe 2>/dev/null || ocamlfind ocamlopt -w -a model.mli model.ml ops2.ml driver.ml -o driver.exe
