(* mutators, binary operations and spec oracles (filled in as properties are added) *)
open Model
let run (f : string array) : string option = ignore f; None
