(* mutators, binary operations: the model side of harness/src/ops3.rs *)
open Model

let rec pos_of_int i = if i = 1 then XH else if i land 1 = 0 then XO (pos_of_int (i lsr 1)) else XI (pos_of_int (i lsr 1))
let n_of_int i = if i = 0 then N0 else Npos (pos_of_int i)
let rec int_of_pos p = match p with XH -> 1 | XO q -> 2 * int_of_pos q | XI q -> 2 * int_of_pos q + 1
let int_of_n n = match n with N0 -> 0 | Npos p -> int_of_pos p
let int_of_nat n = let rec go n acc = match n with O -> acc | S m -> go m (acc + 1) in go n 0
let hexval c = match c with '0'..'9' -> Char.code c - 48 | 'a'..'f' -> Char.code c - 87 | 'A'..'F' -> Char.code c - 55 | _ -> failwith "hex"
let unhex s = if s = "-" || s = "~" then [] else
  let n = String.length s / 2 in
  List.init n (fun i -> n_of_int (hexval s.[2*i] * 16 + hexval s.[2*i+1]))
let hex (l : n list) = if l = [] then "-" else String.concat "" (List.map (fun c -> Printf.sprintf "%02x" (int_of_n c)) l)
let ohex = function None -> "~" | Some l -> hex l
let opt_arg s = if s = "~" then None else Some (unhex s)
let tab = String.concat "\t"
let comma = String.concat ","
let bar = String.concat "\t|\t"

exception Panic
let get = function Some x -> x | None -> raise Panic

let split_op op = match String.index_opt op ':' with
  | Some k -> (String.sub op 0 k, Some (String.sub op (k + 1) (String.length op - k - 1)))
  | None -> (op, None)

let snapshot abs b =
  let sch = if abs then Some (abs_scheme b) else get_scheme b in
  tab [hex b; "-"; ohex sch; ohex (get_authority b); hex (get_path b); ohex (get_query b); ohex (get_fragment b)]

(* one mutation on a reference buffer *)
let apply_op abs (b : n list) (op : string) : n list =
  let (code, arg) = split_op op in
  let oarg = match arg with Some a -> opt_arg a | None -> None in
  let barg = match oarg with Some x -> x | None -> [] in
  let with_auth f = (match authority_mut b with Some h -> (get (f h)).h_data | None -> b) in
  let with_path f = (get (f (path_mut b))).pm_buf in
  match code with
  | "ss" -> if abs then get (abs_set_scheme b barg) else get (set_scheme b oarg)
  | "sa" -> get (set_authority b oarg)
  | "sp" -> get (set_path b barg)
  | "sq" -> get (set_query b oarg)
  | "sf" -> get (set_fragment b oarg)
  | "au" -> with_auth (fun h -> set_userinfo h oarg)
  | "ah" -> with_auth (fun h -> set_host h barg)
  | "ap" -> with_auth (fun h -> set_port h oarg)
  | "pp" -> with_path (fun h -> pm_push h barg)
  | "po" -> with_path pm_pop
  | "pc" -> with_path pm_clear
  | "ps" -> with_path (fun h -> pm_symbolic_push_pub h barg)
  | "pa" -> with_path (fun h -> pm_symbolic_append h (seg_texts barg))
  | "pn" -> with_path pm_normalize
  | _ -> failwith "op"

let handle_op (h : pm) (op : string) : pm =
  let (code, arg) = split_op op in
  let barg = match arg with Some a -> (match opt_arg a with Some x -> x | None -> []) | None -> [] in
  match code with
  | "pp" -> get (pm_push h barg)
  | "po" -> get (pm_pop h)
  | "pc" -> get (pm_clear h)
  | "ps" -> get (pm_symbolic_push_pub h barg)
  | "pa" -> get (pm_symbolic_append h (seg_texts barg))
  | "pn" -> get (pm_normalize h)
  | _ -> failwith "op"

let view_str v = hex v ^ "/" ^ comma (List.map hex (seg_texts v))
let ops_from (f : string array) k = Array.to_list (Array.sub f k (Array.length f - k))
let is_abs_kind k = (k = "uri" || k = "iri")

let run (f : string array) : string option =
  match f.(0) with
  | "ops" | "set" ->
    let abs = is_abs_kind f.(1) in
    let b = ref (unhex f.(2)) in
    let out = ref [snapshot abs !b] in
    (try List.iter (fun op -> b := apply_op abs !b op; out := snapshot abs !b :: !out) (ops_from f 3)
     with Panic -> out := "PANIC" :: !out);
    Some (bar (List.rev !out))
  | "pathops" when f.(1) = "upath" || f.(1) = "ipath" ->
    (try
      let b = ref (unhex f.(2)) in
      let views = List.map (fun op -> b := (handle_op (pm_from_path !b) op).pm_buf; view_str !b) (ops_from f 3) in
      Some (bar [tab views; tab [hex !b; "-"]])
     with Panic -> Some "PANIC")
  | "pathops" ->
    (try
      let abs = is_abs_kind f.(1) in
      let h = ref (path_mut (unhex f.(2))) in
      let views = List.map (fun op -> h := handle_op !h op; view_str (get (pm_view !h))) (ops_from f 3) in
      Some (bar [tab views; snapshot abs (!h).pm_buf])
     with Panic -> Some "PANIC")
  | "authops" ->
    (try
      let abs = is_abs_kind f.(1) in
      (match authority_mut (unhex f.(2)) with
       | None -> Some "NOAUTH"
       | Some h0 ->
         let h = ref h0 in
         let views = List.map (fun op ->
           let (code, arg) = split_op op in
           let oarg = match arg with Some a -> opt_arg a | None -> None in
           let barg = match oarg with Some x -> x | None -> [] in
           h := get (match code with "au" -> set_userinfo !h oarg | "ah" -> set_host !h barg | "ap" -> set_port !h oarg | _ -> failwith "op");
           let v = view !h in
           let sl r = slice v r in
           String.concat "/" [hex v; ohex (Option.map sl (find_user_info v O)); hex (sl (find_host v O)); ohex (Option.map sl (find_port v O))]) (ops_from f 3) in
         Some (bar [tab views; hex (view !h); snapshot abs (!h).h_data]))
     with Panic -> Some "PANIC")
  | "norm" ->
    (try
      let p = unhex f.(2) in
      let n = get (path_normalized p) in
      let nn = get (path_normalized n) in
      let once = get (pb_apply pm_normalize p) in
      let twice = get (pb_apply pm_normalize once) in
      Some (tab [hex n; "-"; hex nn; comma (List.map hex (nsegs p)); hex once; "-"; hex twice])
     with Panic -> Some "PANIC")
  | "refnorm" ->
    (try
      let abs = is_abs_kind f.(1) in
      let b = unhex f.(2) in
      let once = (get (pm_normalize (path_mut b))).pm_buf in
      let twice = (get (pm_normalize (path_mut once))).pm_buf in
      Some (bar [snapshot abs b; snapshot abs once; snapshot abs twice])
     with Panic -> Some "PANIC")
  | "resolve" ->
    (match resolve (unhex f.(3)) (unhex f.(2)) with Some r -> Some (hex r) | None -> Some "PANIC")
  | "relto" ->
    (try
      let a = unhex f.(2) and b = unhex f.(3) in
      let r = get (relative_to a b) in
      let back = (match resolve r b with Some x -> hex x | None -> "PANIC") in
      let eq = (match resolve r b with Some x -> (match eq_ref x a with Some true -> "1" | Some false -> "0" | None -> "P") | None -> "P") in
      Some (tab [hex r; "-"; back; eq])
     with Panic -> Some "PANIC")
  | "suffix" ->
    (match ref_suffix (unhex f.(2)) (unhex f.(3)) with
     | None -> Some "PANIC"
     | Some None -> Some "NONE"
     | Some (Some ((s, q), fr)) -> Some (tab [hex s; "-"; ohex q; ohex fr]))
  | "psuffix" ->
    (match path_suffix (unhex f.(2)) (unhex f.(3)) with
     | None -> Some "PANIC"
     | Some None -> Some "NONE"
     | Some (Some s) -> Some (tab [hex s; "-"]))
  | "base" ->
    let b = ref_base (unhex f.(2)) in Some (Printf.sprintf "0:%d" (List.length b))
  | "dataurl" ->
    let u = unhex f.(1) in
    (match dparse u with
     | None -> Some "REJ"
     | Some d ->
       let sm x = (match x with None -> "LOOP" | Some v -> if v = [] then "~" else hex v) in
       let om = o_media_type u d in
       Some (String.concat "," ["ACC"; (if om = [] then "~" else hex om); (if o_base64 d then "1" else "0"); hex (o_data u d);
                                sm (b_media_type u); (match b_base64 u with None -> "LOOP" | Some true -> "1" | Some false -> "0");
                                (match b_data u with None -> "LOOP" | Some v -> hex v)]))
  | "pct" -> Some (match dec (unhex f.(3)) with Some d -> hex d | None -> "PANIC")
  | "eq" ->
    let a = unhex f.(2) and b = unhex f.(3) in
    let k = f.(1) in
    let key_kind = (match k with "scheme" | "port" -> Some raw_key | "usegment" | "isegment" | "uhost" | "ihost" | "uuserinfo" | "iuserinfo" | "uquery" | "iquery" | "ufragment" | "ifragment" -> Some pct_key | _ -> None) in
    let (e, c, h) = (match k, key_kind with
      | _, Some key -> (eq_key key a b, cmp_key key a b, (if k = "scheme" || k = "port" then hash_raw a else hash_pct a))
      | ("uri" | "uriref" | "iri" | "iriref"), _ -> (eq_ref a b, cmp_ref a b, hash_ref a)
      | ("uauthority" | "iauthority"), _ -> (eq_authority a b, cmp_authority a b, hash_authority a)
      | ("upath" | "ipath"), _ -> (eq_path a b, cmp_path a b, hash_path a)
      | _ -> failwith "kind") in
    let sb = (function Some true -> "1" | Some false -> "0" | None -> "P") in
    let sc = (function Some Lt -> "L" | Some Eq -> "E" | Some Gt -> "G" | None -> "P") in
    let tok = (function HU8 n -> "u8." ^ string_of_int (int_of_n n) | HIsize n -> "is." ^ string_of_int (int_of_n n)
                      | HUsize n -> "us." ^ string_of_int (int_of_n n) | HBytes s -> "b" ^ hex s) in
    let sh = (match h with Some l -> comma (List.map tok l) | None -> "PANIC") in
    Some (tab [sb e; sc c; sh])
  | _ -> None
