// Read-only accessors: C02 (reference decomposition), C03 (authority), C12 (segments and path
// queries), C20 (every result is a sub-slice of the input, no allocation).
#![allow(unused, clippy::all)]
use crate::*;

// ref <kind> <hex>  ->  S A P Q F (ranges through the individual accessors) | parts | owned | comp | allocs
macro_rules! ref_ops {
	($fname:ident, $T:ty, $B:ty, $mk:expr, $mkb:expr, $scheme:expr, $pscheme:expr, $fam:ident) => {
		fn $fname(inp: &[u8]) -> String {
			use iref::$fam as fam;
			let a0 = allocs();
			let v: &$T = match $mk(inp) {
				Some(v) => v,
				None => return "ERR".to_string(),
			};
			let whole = v.as_bytes();
			let sch: Option<&[u8]> = $scheme(v);
			let i_a = v.authority().map(|x| x.as_bytes());
			let i_p = v.path().as_bytes();
			let i_q = v.query().map(|x| x.as_bytes());
			let i_f = v.fragment().map(|x| x.as_bytes());
			let p = v.parts();
			let psch: Option<&[u8]> = $pscheme(&p);
			let p_a = p.authority.map(|x| x.as_bytes());
			let p_p = p.path.as_bytes();
			let p_q = p.query.map(|x| x.as_bytes());
			let p_f = p.fragment.map(|x| x.as_bytes());
			let a1 = allocs();
			let full = rng(inp, whole);
			let ind = format!("{}\t{}\t{}\t{}\t{}", orng(inp, sch), orng(inp, i_a), rng(inp, i_p), orng(inp, i_q), orng(inp, i_f));
			let all = format!("{}\t{}\t{}\t{}\t{}", orng(inp, psch), orng(inp, p_a), rng(inp, p_p), orng(inp, p_q), orng(inp, p_f));
			// each component is a valid value of its own type
			let mut comp = true;
			if let Some(s) = sch {
				comp &= iref::uri::Scheme::new(s).is_ok();
			}
			if let Some(a) = v.authority() {
				comp &= fam::Authority::new(a.as_bytes_ref()).is_ok();
			}
			comp &= fam::Path::new(v.path().as_bytes_ref()).is_ok();
			if let Some(q) = v.query() {
				comp &= fam::Query::new(q.as_bytes_ref()).is_ok();
			}
			if let Some(fr) = v.fragment() {
				comp &= fam::Fragment::new(fr.as_bytes_ref()).is_ok();
			}
			// owned view
			let o: $B = match $mkb(inp) {
				Some(o) => o,
				None => return "ERR-owned".to_string(),
			};
			let ob = o.as_bytes();
			let osch: Option<&[u8]> = $scheme(&*o);
			let own = format!(
				"{}\t{}\t{}\t{}\t{}",
				orng(ob, osch),
				orng(ob, o.authority().map(|x| x.as_bytes())),
				rng(ob, o.path().as_bytes()),
				orng(ob, o.query().map(|x| x.as_bytes())),
				orng(ob, o.fragment().map(|x| x.as_bytes()))
			);
			format!("{}\t{}\t{}\t{}\t{}\t{}\t{}", full, ind, (all == ind) as u8, (own == ind) as u8, comp as u8, a1 - a0, all)
		}
	};
}

trait AsBytesRef {
	type R: ?Sized;
	fn as_bytes_ref(&self) -> &Self::R;
}
macro_rules! abr_bytes { ($($T:ty),*) => { $(impl AsBytesRef for $T { type R = [u8]; fn as_bytes_ref(&self) -> &[u8] { self.as_bytes() } })* } }
macro_rules! abr_str { ($($T:ty),*) => { $(impl AsBytesRef for $T { type R = str; fn as_bytes_ref(&self) -> &str { self.as_str() } })* } }
abr_bytes!(iref::uri::Authority, iref::uri::Path, iref::uri::Query, iref::uri::Fragment, iref::uri::UserInfo, iref::uri::Host, iref::uri::Port, iref::uri::Segment);
abr_str!(iref::iri::Authority, iref::iri::Path, iref::iri::Query, iref::iri::Fragment, iref::iri::UserInfo, iref::iri::Host, iref::iri::Segment);

fn s2(b: &[u8]) -> Option<&str> {
	std::str::from_utf8(b).ok()
}

fn sch_uri<'a>(v: &'a iref::Uri) -> Option<&'a [u8]> { Some(v.scheme().as_bytes()) }
fn sch_uriref<'a>(v: &'a iref::UriRef) -> Option<&'a [u8]> { v.scheme().map(|s| s.as_bytes()) }
fn sch_iri<'a>(v: &'a iref::Iri) -> Option<&'a [u8]> { Some(v.scheme().as_bytes()) }
fn sch_iriref<'a>(v: &'a iref::IriRef) -> Option<&'a [u8]> { v.scheme().map(|s| s.as_bytes()) }
fn psch_uri<'a>(p: &iref::uri::UriParts<'a>) -> Option<&'a [u8]> { Some(p.scheme.as_bytes()) }
fn psch_uriref<'a>(p: &iref::uri::UriRefParts<'a>) -> Option<&'a [u8]> { p.scheme.map(|s| s.as_bytes()) }
fn psch_iri<'a>(p: &iref::iri::IriParts<'a>) -> Option<&'a [u8]> { Some(p.scheme.as_bytes()) }
fn psch_iriref<'a>(p: &iref::iri::IriRefParts<'a>) -> Option<&'a [u8]> { p.scheme.map(|s| s.as_bytes()) }
ref_ops!(ref_uri, iref::Uri, iref::UriBuf, |i| iref::Uri::new(i).ok(), |i: &[u8]| iref::UriBuf::new(i.to_vec()).ok(), sch_uri, psch_uri, uri);
ref_ops!(ref_uriref, iref::UriRef, iref::UriRefBuf, |i| iref::UriRef::new(i).ok(), |i: &[u8]| iref::UriRefBuf::new(i.to_vec()).ok(), sch_uriref, psch_uriref, uri);
ref_ops!(ref_iri, iref::Iri, iref::IriBuf, |i| s2(i).and_then(|s| iref::Iri::new(s).ok()), |i: &[u8]| s2(i).and_then(|s| iref::IriBuf::new(s.to_string()).ok()), sch_iri, psch_iri, iri);
ref_ops!(ref_iriref, iref::IriRef, iref::IriRefBuf, |i| s2(i).and_then(|s| iref::IriRef::new(s).ok()), |i: &[u8]| s2(i).and_then(|s| iref::IriRefBuf::new(s.to_string()).ok()), sch_iriref, psch_iriref, iri);

// auth <fam> <hex>: U H P ranges through accessors | parts agree | components valid | allocs | parts
macro_rules! auth_ops {
	($fname:ident, $fam:ident, $mk:expr) => {
		fn $fname(inp: &[u8]) -> String {
			use iref::$fam as fam;
			let a0 = allocs();
			let v: &fam::Authority = match $mk(inp) {
				Some(v) => v,
				None => return "ERR".to_string(),
			};
			let i_u = v.user_info().map(|x| x.as_bytes());
			let i_h = v.host().as_bytes();
			let i_p = v.port().map(|x| x.as_bytes());
			let p = v.parts();
			let p_u = p.user_info.map(|x| x.as_bytes());
			let p_h = p.host.as_bytes();
			let p_p = p.port.map(|x| x.as_bytes());
			let a1 = allocs();
			let ind = format!("{}\t{}\t{}", orng(inp, i_u), rng(inp, i_h), orng(inp, i_p));
			let all = format!("{}\t{}\t{}", orng(inp, p_u), rng(inp, p_h), orng(inp, p_p));
			let mut comp = true;
			if let Some(u) = v.user_info() {
				comp &= fam::UserInfo::new(u.as_bytes_ref()).is_ok();
			}
			comp &= fam::Host::new(v.host().as_bytes_ref()).is_ok();
			if let Some(p) = v.port() {
				comp &= iref::uri::Port::new(p.as_bytes()).is_ok();
			}
			format!("{}\t{}\t{}\t{}\t{}", ind, (all == ind) as u8, comp as u8, a1 - a0, all)
		}
	};
}
auth_ops!(auth_uri, uri, |i| iref::uri::Authority::new(i).ok());
auth_ops!(auth_iri, iri, |i| s2(i).and_then(|s| iref::iri::Authority::new(s).ok()));

// refauth <kind> <hex>: the authority of a reference, decomposed; ranges relative to the whole input
fn refauth(kind: &str, inp: &[u8]) -> String {
	macro_rules! go {
		($v:expr) => {{
			match $v.authority() {
				None => "~".to_string(),
				Some(a) => {
					let p = a.parts();
					format!(
						"{}\t{}\t{}\t{}",
						orng(inp, a.user_info().map(|x| x.as_bytes())),
						rng(inp, a.host().as_bytes()),
						orng(inp, a.port().map(|x| x.as_bytes())),
						(p.user_info.map(|x| x.as_bytes()) == a.user_info().map(|x| x.as_bytes())
							&& p.host.as_bytes() == a.host().as_bytes()
							&& p.port.map(|x| x.as_bytes()) == a.port().map(|x| x.as_bytes())) as u8
					)
				}
			}
		}};
	}
	match kind {
		"uri" => match iref::Uri::new(inp) { Ok(v) => go!(v), Err(_) => "ERR".into() },
		"uriref" => match iref::UriRef::new(inp) { Ok(v) => go!(v), Err(_) => "ERR".into() },
		"iri" => match s2(inp).and_then(|s| iref::Iri::new(s).ok()) { Some(v) => go!(v), None => "ERR".into() },
		"iriref" => match s2(inp).and_then(|s| iref::IriRef::new(s).ok()) { Some(v) => go!(v), None => "ERR".into() },
		_ => panic!("kind"),
	}
}

// path <fam> <hex> <script of f/b>: segments produced by the script, then the derived queries
macro_rules! path_ops {
	($fname:ident, $fam:ident, $mk:expr) => {
		fn $fname(inp: &[u8], script: &str) -> String {
			use iref::$fam as fam;
			let mut got: Vec<Option<&[u8]>> = Vec::with_capacity(script.len() + 1);
			let a0 = allocs();
			let p: &fam::Path = match $mk(inp) {
				Some(v) => v,
				None => return "ERR".to_string(),
			};
			let mut it = p.segments();
			for c in script.bytes() {
				let s = if c == b'f' { it.next() } else { it.next_back() };
				got.push(s.map(|x| x.as_bytes()));
			}
			let q_e = p.is_empty();
			let q_a = p.is_absolute();
			let q_c = p.segment_count();
			let q_first = p.first().map(|x| x.as_bytes());
			let q_last = p.last().map(|x| x.as_bytes());
			let q_fn = p.file_name().map(|x| x.as_bytes());
			let q_dir = p.directory().as_bytes();
			let q_par = p.parent().map(|x| x.as_bytes());
			let q_poe = p.parent_or_empty().as_bytes();
			let a1 = allocs();
			let items: Vec<String> = got.iter().map(|s| orng(inp, *s)).collect();
			let q = format!("{}\t{}\t{}\t{}\t{}\t{}\t{}\t{}\t{}", q_e as u8, q_a as u8, q_c, orng(inp, q_first), orng(inp, q_last), orng(inp, q_fn), rng(inp, q_dir), orng(inp, q_par), rng(inp, q_poe));
			let nl = p.normalized_segments().len();
			let ns: Vec<String> = p.normalized_segments().map(|s| rng(inp, s.as_bytes())).collect();
			let all: Vec<String> = p.segments().map(|s| rng(inp, s.as_bytes())).collect();
			let rev: Vec<String> = p.segments().rev().map(|s| rng(inp, s.as_bytes())).collect();
			format!("{}\t{}\t{}\t{}\t{}\t{}\t{}", items.join(","), q, a1 - a0, nl, ns.join(","), all.join(","), rev.join(","))
		}
	};
}
path_ops!(path_uri, uri, |i| iref::uri::Path::new(i).ok());
path_ops!(path_iri, iri, |i| s2(i).and_then(|s| iref::iri::Path::new(s).ok()));

// refpath <kind> <hex>: path() of a reference, then its segments (ranges relative to the input)
fn refpath(kind: &str, inp: &[u8]) -> String {
	macro_rules! go {
		($v:expr) => {{
			let p = $v.path();
			let all: Vec<String> = p.segments().map(|s| rng(inp, s.as_bytes())).collect();
			format!("{}\t{}", rng(inp, p.as_bytes()), all.join(","))
		}};
	}
	match kind {
		"uri" => match iref::Uri::new(inp) { Ok(v) => go!(v), Err(_) => "ERR".into() },
		"uriref" => match iref::UriRef::new(inp) { Ok(v) => go!(v), Err(_) => "ERR".into() },
		"iri" => match s2(inp).and_then(|s| iref::Iri::new(s).ok()) { Some(v) => go!(v), None => "ERR".into() },
		"iriref" => match s2(inp).and_then(|s| iref::IriRef::new(s).ok()) { Some(v) => go!(v), None => "ERR".into() },
		_ => panic!("kind"),
	}
}

pub fn run(f: &[&str]) -> Option<String> {
	Some(match f[0] {
		"ref" => {
			let inp = unhex(f[2]);
			match f[1] {
				"uri" => ref_uri(&inp),
				"uriref" => ref_uriref(&inp),
				"iri" => ref_iri(&inp),
				"iriref" => ref_iriref(&inp),
				_ => panic!("kind"),
			}
		}
		"auth" => {
			let inp = unhex(f[2]);
			match f[1] {
				"uri" => auth_uri(&inp),
				"iri" => auth_iri(&inp),
				_ => panic!("fam"),
			}
		}
		"refauth" => refauth(f[1], &unhex(f[2])),
		"refpath" => refpath(f[1], &unhex(f[2])),
		"path" => {
			let inp = unhex(f[2]);
			match f[1] {
				"uri" => path_uri(&inp, f[3]),
				"iri" => path_iri(&inp, f[3]),
				_ => panic!("fam"),
			}
		}
		_ => return None,
	})
}
