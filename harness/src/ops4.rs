// Comparison traits (C07, C08), percent-decoded views (C19), conversions (C13), data URLs (C18).
#![allow(unused, clippy::all)]
use crate::ops3::{i, u};
use crate::*;
use std::cmp::Ordering;
use std::collections::{BTreeSet, HashSet};
use std::hash::{Hash, Hasher};
use std::panic::{catch_unwind, AssertUnwindSafe};

/// records the exact sequence of Hasher::write_* calls
#[derive(Default)]
pub struct Rec(pub Vec<String>);
impl Hasher for Rec {
	fn finish(&self) -> u64 { 0 }
	fn write(&mut self, b: &[u8]) { self.0.push(format!("b{}", hex(b))) }
	fn write_u8(&mut self, x: u8) { self.0.push(format!("u8.{}", x)) }
	fn write_u16(&mut self, x: u16) { self.0.push(format!("u16.{}", x)) }
	fn write_u32(&mut self, x: u32) { self.0.push(format!("u32.{}", x)) }
	fn write_u64(&mut self, x: u64) { self.0.push(format!("u64.{}", x)) }
	fn write_usize(&mut self, x: usize) { self.0.push(format!("us.{}", x)) }
	fn write_i8(&mut self, x: i8) { self.0.push(format!("i8.{}", x)) }
	fn write_i32(&mut self, x: i32) { self.0.push(format!("i32.{}", x)) }
	fn write_i64(&mut self, x: i64) { self.0.push(format!("i64.{}", x)) }
	fn write_isize(&mut self, x: isize) { self.0.push(format!("is.{}", x)) }
}
fn stream<T: Hash + ?Sized>(x: &T) -> String {
	let mut r = Rec::default();
	x.hash(&mut r);
	r.0.join(",")
}
fn g<R>(f: impl FnOnce() -> R) -> Option<R> {
	catch_unwind(AssertUnwindSafe(f)).ok()
}
fn b(x: Option<bool>) -> char {
	match x { Some(true) => '1', Some(false) => '0', None => 'P' }
}
fn o(x: Option<Ordering>) -> char {
	match x { Some(Ordering::Less) => 'L', Some(Ordering::Equal) => 'E', Some(Ordering::Greater) => 'G', None => 'P' }
}

// eq <kind> <a> <b>: ==, != , cmp both ways, partial_cmp, hash streams, owned forms
macro_rules! owned_cmp {
	(own, $xo:ident, $yo:ident) => { (g(|| $xo == $yo), g(|| $xo.cmp(&$yo)), g(|| stream(&$xo))) };
	(deref, $xo:ident, $yo:ident) => { (g(|| *$xo == *$yo), g(|| (*$xo).cmp(&*$yo)), g(|| stream(&*$xo))) };
}
macro_rules! cmp_pair {
	($mk:expr, $f:expr) => { cmp_pair!($mk, $f, own) };
	($mk:expr, $f:expr, $mode:ident) => {{
		let f: &[&str] = $f;
		let ab = unhex(f[2]); let bb = unhex(f[3]);
		let x = match $mk(&ab) { Some(x) => x, None => return Some("ERR-a".into()) };
		let y = match $mk(&bb) { Some(x) => x, None => return Some("ERR-b".into()) };
		let e1 = g(|| x == y); let e2 = g(|| y == x); let ne = g(|| x != y);
		let c1 = g(|| x.cmp(y)); let c2 = g(|| y.cmp(x)); let pc = g(|| x.partial_cmp(y)).flatten();
		let hx = g(|| stream(x)); let hy = g(|| stream(y));
		let xo = x.to_owned(); let yo = y.to_owned();
		let (oe, oc, oh) = owned_cmp!($mode, xo, yo);
		let mixed = g(|| &*xo == y);
		format!("{}\t{}\t{}\t{}\t{}\t{}\t{}\t{}\t{}\t{}\t{}\t{}", b(e1), b(e2), b(ne), o(c1), o(c2), o(pc),
			b(match (&hx, &hy) { (Some(p), Some(q)) => Some(p == q), _ => None }), b(oe), o(oc),
			b(match (&hx, &oh) { (Some(p), Some(q)) => Some(p == q), _ => None }), b(mixed), hx.unwrap_or("PANIC".into()))
	}};
}

// lookup <fam> <a> <b>: a inserted owned into hashed/ordered sets, b looked up through every Borrow view
fn lookup(f: &[&str]) -> Option<String> {
	let ab = unhex(f[2]); let bb = unhex(f[3]);
	let mut out = String::new();
	macro_rules! probe {
		($set_ty:ty, $owned:expr, $($view:expr),*) => {{
			if let Some(ow) = $owned {
				let hs = g(|| { let mut s: HashSet<$set_ty> = HashSet::new(); s.insert(ow.clone()); s });
				let bs = g(|| { let mut s: BTreeSet<$set_ty> = BTreeSet::new(); s.insert(ow.clone()); s });
				$(
					match $view {
						Some(v) => {
							out.push(b(hs.as_ref().and_then(|s| g(|| s.contains(v)))));
							out.push(b(bs.as_ref().and_then(|s| g(|| s.contains(v)))));
						}
						None => out.push_str("--"),
					}
				)*
			} else { out.push_str("~"); }
			out.push(' ');
		}};
	}
	match f[1] {
		"uri" => {
			probe!(iref::UriBuf, u::absbuf(&ab), u::abs(&bb), u::rref(&bb), i::abs(&bb), i::rref(&bb));
			probe!(iref::UriRefBuf, u::refbuf(&ab), u::rref(&bb));
			probe!(iref::IriBuf, i::absbuf(&ab), i::abs(&bb), i::rref(&bb));
			probe!(iref::IriRefBuf, i::refbuf(&ab), i::rref(&bb));
		}
		"iri" => {
			probe!(iref::IriBuf, i::absbuf(&ab), i::abs(&bb), i::rref(&bb));
			probe!(iref::IriRefBuf, i::refbuf(&ab), i::rref(&bb));
		}
		_ => panic!("fam"),
	}
	// hash streams of the views of b that must coincide
	let hs: Vec<String> = match f[1] {
		"uri" => vec![u::abs(&bb).map(|v| stream(v)), u::rref(&bb).map(|v| stream(v)), i::abs(&bb).map(|v| stream(v)), i::rref(&bb).map(|v| stream(v)),
			u::absbuf(&bb).map(|v| stream(&v)), u::refbuf(&bb).map(|v| stream(&v))].into_iter().flatten().collect(),
		_ => vec![i::abs(&bb).map(|v| stream(v)), i::rref(&bb).map(|v| stream(v)), i::absbuf(&bb).map(|v| stream(&v)), i::refbuf(&bb).map(|v| stream(&v))].into_iter().flatten().collect(),
	};
	let all_same = hs.windows(2).all(|w| w[0] == w[1]);
	Some(format!("{}\t{}", out.trim_end(), all_same as u8))
}

// xcmp <fam> <a> <b>: every provided cross-type == and partial_cmp between the four views (X, XBuf, XRef, XRefBuf) of two
// absolute values; first field: the same-type result on references, then 16 == flags and 16 partial_cmp letters
macro_rules! xcmp_fam {
	($m:ident, $f:expr) => {{
		let f: &[&str] = $f;
		let ab = unhex(f[2]); let bb = unhex(f[3]);
		let (av, aref, abuf, arbuf) = match ($m::abs(&ab), $m::rref(&ab), $m::absbuf(&ab), $m::refbuf(&ab)) { (Some(a), Some(b_), Some(c), Some(d)) => (a, b_, c, d), _ => return Some("ERR-a".into()) };
		let (bv, bref, bbuf, brbuf) = match ($m::abs(&bb), $m::rref(&bb), $m::absbuf(&bb), $m::refbuf(&bb)) { (Some(a), Some(b_), Some(c), Some(d)) => (a, b_, c, d), _ => return Some("ERR-b".into()) };
		let base_e = b(g(|| *aref == *bref)); let base_c = o(g(|| aref.partial_cmp(bref)).flatten());
		let es: String = [
			g(|| *av == bv), g(|| *av == bbuf), g(|| *av == *bref), g(|| *av == bref), g(|| *av == brbuf),
			g(|| abuf == *bref), g(|| abuf == bref), g(|| abuf == brbuf),
			g(|| *aref == bref), g(|| *aref == brbuf), g(|| *aref == *bv), g(|| *aref == bv), g(|| *aref == bbuf),
			g(|| arbuf == *bv), g(|| arbuf == bv), g(|| arbuf == bbuf),
		].into_iter().map(b).collect();
		let cs: String = [
			g(|| (*av).partial_cmp(&bv)), g(|| (*av).partial_cmp(&bbuf)), g(|| (*av).partial_cmp(bref)), g(|| (*av).partial_cmp(&bref)), g(|| (*av).partial_cmp(&brbuf)),
			g(|| abuf.partial_cmp(bref)), g(|| abuf.partial_cmp(&bref)), g(|| abuf.partial_cmp(&brbuf)),
			g(|| (*aref).partial_cmp(&bref)), g(|| (*aref).partial_cmp(&brbuf)), g(|| (*aref).partial_cmp(bv)), g(|| (*aref).partial_cmp(&bv)), g(|| (*aref).partial_cmp(&bbuf)),
			g(|| arbuf.partial_cmp(bv)), g(|| arbuf.partial_cmp(&bv)), g(|| arbuf.partial_cmp(&bbuf)),
		].into_iter().map(|x| o(x.flatten())).collect();
		format!("{}{}\t{}\t{}", base_e, base_c, es, cs)
	}};
}
fn xcmp(f: &[&str]) -> Option<String> {
	Some(match f[1] { "uri" => xcmp_fam!(u, f), "iri" => xcmp_fam!(i, f), _ => panic!("fam") })
}

// pct <fam> <comp> <hex>: the percent-decoded view of a component
macro_rules! pct_view {
	($v:expr) => {{
		let v = $v;
		let view = g(|| v.as_pct_str());
		match view {
			None => "PANIC-view".to_string(),
			Some(p) => {
				let bytes = g(|| p.bytes().collect::<Vec<u8>>());
				let chars = g(|| p.chars().collect::<String>());
				let len = g(|| p.len());
				// the same length asked of the component itself (method call through Deref<Target = PctStr>) must not differ
				let vlen = g(|| v.len());
				let decd = g(|| p.decode());
				let text = chars.clone().unwrap_or_default();
				let eqs = g(|| *p == *text.as_str());
				let eq_self = g(|| p == p);
				format!("{}\t{}\t{}\t{}\t{}\t{}", bytes.map(|x| hex(&x)).unwrap_or("PANIC".into()), chars.map(|x| hex(x.as_bytes())).unwrap_or("PANIC".into()),
					match (len, vlen) { (Some(a), Some(c)) if a == c => a.to_string(), (Some(a), Some(c)) => format!("{}!={} (component.len() versus as_pct_str().len())", a, c), (Some(a), None) => format!("{}!=PANIC (component.len())", a), _ => "PANIC".into() }, decd.map(|x| hex(x.as_bytes())).unwrap_or("PANIC".into()), b(eqs), b(eq_self))
			}
		}
	}};
}

// conv <hex>: every conversion between the eight URI/IRI types, starting from each type the text is valid for
fn conv(inp: &[u8]) -> String {
	let mut out: Vec<String> = vec![];
	let t = |x: &[u8]| if x == inp { "=" } else { "!" };
	let okb = |n: &str, r: Option<Vec<u8>>| format!("{}:{}", n, match r { Some(v) => if v == inp { "ok".to_string() } else { format!("CHANGED{}", hex(&v)) }, None => "-".to_string() });
	// from Uri
	if let Some(v) = u::abs(inp) {
		out.push(okb("uri.as_uri_ref", Some(v.as_uri_ref().as_bytes().to_vec())));
		out.push(okb("uri.as_iri", Some(v.as_iri().as_bytes().to_vec())));
		out.push(okb("uri.as_iri_ref", Some(v.as_iri_ref().as_bytes().to_vec())));
		let o = v.to_owned();
		out.push(okb("uribuf.into_uri_ref", Some(o.clone().into_uri_ref().as_bytes().to_vec())));
		out.push(okb("uribuf.into_iri", Some(o.clone().into_iri().as_bytes().to_vec())));
		out.push(okb("uribuf.into_iri_ref", Some(o.clone().into_iri_ref().as_bytes().to_vec())));
		out.push(okb("from(uribuf)->urirefbuf", Some(iref::UriRefBuf::from(o.clone()).as_bytes().to_vec())));
	} else { out.push("uri:-".into()); }
	if let Some(v) = u::rref(inp) {
		out.push(okb("uriref.as_iri_ref", Some(v.as_iri_ref().as_bytes().to_vec())));
		out.push(format!("uriref.as_uri:{}", match v.as_uri() { Some(x) => t(x.as_bytes()).to_string(), None => "none".into() }));
		out.push(format!("uriref.as_iri:{}", match v.as_iri() { Some(x) => t(x.as_bytes()).to_string(), None => "none".into() }));
		let o = v.to_owned();
		out.push(okb("urirefbuf.into_iri_ref", Some(o.clone().into_iri_ref().as_bytes().to_vec())));
		out.push(okb("from(&uriref)->&iriref", Some(<&iref::IriRef>::from(v).as_bytes().to_vec())));
		out.push(okb("from(urirefbuf)->irirefbuf", Some(iref::IriRefBuf::from(o.clone()).as_bytes().to_vec())));
		out.push(format!("tryfrom(&uriref)->&iri:{}", match <&iref::Iri>::try_from(v) { Ok(x) => t(x.as_bytes()).to_string(), Err(e) => format!("err{}", t(e.0.as_bytes())) }));
		out.push(format!("tryfrom(urirefbuf)->iribuf:{}", match iref::IriBuf::try_from(o.clone()) { Ok(x) => t(x.as_bytes()).to_string(), Err(e) => format!("err{}", t(e.0.as_bytes())) }));
		out.push(format!("urirefbuf.try_into_uri:{}", match o.clone().try_into_uri() { Ok(x) => t(x.as_bytes()).to_string(), Err(e) => format!("err{}", t(e.0.as_bytes())) }));
		out.push(format!("urirefbuf.try_into_iri:{}", match o.clone().try_into_iri() { Ok(x) => t(x.as_bytes()).to_string(), Err(e) => format!("err{}", t(e.0.as_bytes())) }));
		out.push(format!("tryfrom(&uriref)->&uri:{}", match <&iref::Uri>::try_from(v) { Ok(x) => t(x.as_bytes()).to_string(), Err(e) => format!("err{}", t(e.0.as_bytes())) }));
		out.push(format!("tryfrom(urirefbuf)->uribuf:{}", match iref::UriBuf::try_from(o.clone()) { Ok(x) => t(x.as_bytes()).to_string(), Err(e) => format!("err{}", t(e.0.as_bytes())) }));
	} else { out.push("uriref:-".into()); }
	if let Some(v) = i::abs(inp) {
		out.push(okb("iri.as_iri_ref", Some(v.as_iri_ref().as_bytes().to_vec())));
		out.push(format!("iri.as_uri:{}", match v.as_uri() { Some(x) => t(x.as_bytes()).to_string(), None => "none".into() }));
		let o = v.to_owned();
		out.push(okb("iribuf.into_iri_ref", Some(o.clone().into_iri_ref().as_bytes().to_vec())));
		out.push(okb("from(&iri)->&iriref", Some(<&iref::IriRef>::from(v).as_bytes().to_vec())));
		out.push(okb("from(iribuf)->irirefbuf", Some(iref::IriRefBuf::from(o.clone()).as_bytes().to_vec())));
		out.push(format!("tryfrom(&iri)->&uriref:{}", match <&iref::UriRef>::try_from(v) { Ok(x) => t(x.as_bytes()).to_string(), Err(e) => format!("err{}", t(e.0.as_bytes())) }));
		out.push(format!("tryfrom(iribuf)->urirefbuf:{}", match iref::UriRefBuf::try_from(o.clone()) { Ok(x) => t(x.as_bytes()).to_string(), Err(e) => format!("err{}", t(e.0.as_bytes())) }));
		out.push(format!("iribuf.try_into_uri:{}", match o.clone().try_into_uri() { Ok(x) => t(x.as_bytes()).to_string(), Err(e) => format!("err{}", t(e.0.as_bytes())) }));
		out.push(format!("tryfrom(&iri)->&uri:{}", match <&iref::Uri>::try_from(v) { Ok(x) => t(x.as_bytes()).to_string(), Err(e) => format!("err{}", t(e.0.as_bytes())) }));
		out.push(format!("tryfrom(iribuf)->uribuf:{}", match iref::UriBuf::try_from(o.clone()) { Ok(x) => t(x.as_bytes()).to_string(), Err(e) => format!("err{}", t(e.0.as_bytes())) }));
	} else { out.push("iri:-".into()); }
	if let Some(v) = i::rref(inp) {
		out.push(format!("iriref.as_iri:{}", match v.as_iri() { Some(x) => t(x.as_bytes()).to_string(), None => "none".into() }));
		out.push(format!("iriref.as_uri_ref:{}", match v.as_uri_ref() { Some(x) => t(x.as_bytes()).to_string(), None => "none".into() }));
		out.push(format!("iriref.as_uri:{}", match v.as_uri() { Some(x) => t(x.as_bytes()).to_string(), None => "none".into() }));
		let o = v.to_owned();
		out.push(format!("irirefbuf.try_into_iri:{}", match o.clone().try_into_iri() { Ok(x) => t(x.as_bytes()).to_string(), Err(e) => format!("err{}", t(e.0.as_bytes())) }));
		out.push(format!("irirefbuf.try_into_uri_ref:{}", match o.clone().try_into_uri_ref() { Ok(x) => t(x.as_bytes()).to_string(), Err(e) => format!("err{}", t(e.0.as_bytes())) }));
		out.push(format!("irirefbuf.try_into_uri:{}", match o.clone().try_into_uri() { Ok(x) => t(x.as_bytes()).to_string(), Err(e) => format!("err{}", t(e.0.as_bytes())) }));
		out.push(format!("tryfrom(&iriref)->&iri:{}", match <&iref::Iri>::try_from(v) { Ok(x) => t(x.as_bytes()).to_string(), Err(e) => format!("err{}", t(e.0.as_bytes())) }));
		out.push(format!("tryfrom(&iriref)->&uriref:{}", match <&iref::UriRef>::try_from(v) { Ok(x) => t(x.as_bytes()).to_string(), Err(e) => format!("err{}", t(e.0.as_bytes())) }));
		out.push(format!("tryfrom(&iriref)->&uri:{}", match <&iref::Uri>::try_from(v) { Ok(x) => t(x.as_bytes()).to_string(), Err(e) => format!("err{}", t(e.0.as_bytes())) }));
		out.push(format!("tryfrom(irirefbuf)->iribuf:{}", match iref::IriBuf::try_from(o.clone()) { Ok(x) => t(x.as_bytes()).to_string(), Err(e) => format!("err{}", t(e.0.as_bytes())) }));
		out.push(format!("tryfrom(irirefbuf)->uribuf:{}", match iref::UriBuf::try_from(o.clone()) { Ok(x) => t(x.as_bytes()).to_string(), Err(e) => format!("err{}", t(e.0.as_bytes())) }));
		out.push(format!("tryfrom(irirefbuf)->urirefbuf:{}", match iref::UriRefBuf::try_from(o.clone()) { Ok(x) => t(x.as_bytes()).to_string(), Err(e) => format!("err{}", t(e.0.as_bytes())) }));
	} else { out.push("iriref:-".into()); }
	out.join(" ")
}

// dataurl <hex>: borrowed and owned constructors, and their accessors
fn dataurl(inp: &[u8]) -> String {
	use iref::uri::data::{DataUrl, DataUrlBuf};
	let s = match std::str::from_utf8(inp) { Ok(s) => s, Err(_) => {
		let ob = DataUrlBuf::new(inp.to_vec()).is_ok();
		return format!("nonutf8\t{}", ob as u8);
	} };
	let br = g(|| DataUrl::new(s).ok().map(|d| {
		let p = d.parts();
		(d.as_bytes().to_vec(), ohex(d.media_type().map(|x| x.as_bytes())), d.is_base_64_encoded(), hex(d.encoded_data().as_bytes()),
			match d.decoded_data() { Ok(x) => hex(x.as_ref()), Err(_) => "DECODE-ERR".to_string() }, ohex(p.media_type.map(|x| x.as_bytes())), p.base_64, hex(p.data.as_bytes()))
	}));
	let ow = g(|| DataUrlBuf::new(inp.to_vec()).ok().map(|d| {
		let p = d.parts();
		(d.as_bytes().to_vec(), ohex(d.media_type().map(|x| x.as_bytes())), d.is_base_64_encoded(), hex(d.encoded_data().as_bytes()),
			match d.decoded_data() { Ok(x) => hex(x.as_ref()), Err(_) => "DECODE-ERR".to_string() }, ohex(p.media_type.map(|x| x.as_bytes())), p.base_64, hex(p.data.as_bytes()))
	}));
	let fs = g(|| DataUrlBuf::from_string(s.to_string()).is_ok());
	let fstr = g(|| s.parse::<DataUrlBuf>().is_ok());
	let is_uri = iref::Uri::new(inp).is_ok();
	let show = |x: &Option<Option<(Vec<u8>, String, bool, String, String, String, bool, String)>>| match x {
		None => "PANIC".to_string(),
		Some(None) => "REJ".to_string(),
		Some(Some(t)) => format!("ACC,{},{},{},{},{},{},{},{}", (t.0 == inp) as u8, t.1, t.2 as u8, t.3, t.4, t.5, t.6 as u8, t.7),
	};
	format!("{}\t{}\t{}\t{}\t{}", show(&br), show(&ow), b(fs), b(fstr), is_uri as u8)
}

// refpct <kind> <ref>: the percent-decoded views of every component reached through the accessors
macro_rules! one_view {
	($p:expr) => {{
		let p = $p;
		let by = g(|| p.bytes().collect::<Vec<u8>>());
		let ch = g(|| p.chars().collect::<String>());
		format!("{}/{}", by.map(|x| hex(&x)).unwrap_or("PANIC".into()), ch.map(|x| hex(x.as_bytes())).unwrap_or("PANIC".into()))
	}};
}
macro_rules! refpct {
	($v:expr) => {{
		let v = $v;
		let au = v.authority();
		let ui = au.and_then(|a| a.user_info()).map(|x| one_view!(x.as_pct_str())).unwrap_or("~".into());
		let ho = au.map(|a| one_view!(a.host().as_pct_str())).unwrap_or("~".into());
		let sg: Vec<String> = v.path().segments().map(|s| one_view!(s.as_pct_str())).collect();
		let q = v.query().map(|x| one_view!(x.as_pct_str())).unwrap_or("~".into());
		let fr = v.fragment().map(|x| one_view!(x.as_pct_str())).unwrap_or("~".into());
		format!("{}\t{}\t{}\t{}\t{}", ui, ho, sg.join(","), q, fr)
	}};
}

pub fn run(f: &[&str]) -> Option<String> {
	Some(match f[0] {
		"eq" => match f[1] {
			"uri" => cmp_pair!(u::abs, f),
			"uriref" => cmp_pair!(u::rref, f),
			"iri" => cmp_pair!(i::abs, f),
			"iriref" => cmp_pair!(i::rref, f),
			"uauthority" => cmp_pair!(u::authority, f),
			"iauthority" => cmp_pair!(i::authority, f),
			"upath" => cmp_pair!(u::path, f, deref),
			"ipath" => cmp_pair!(i::path, f, deref),
			"usegment" => cmp_pair!(u::segment, f),
			"isegment" => cmp_pair!(i::segment, f),
			"uhost" => cmp_pair!(u::host, f),
			"ihost" => cmp_pair!(i::host, f),
			"uuserinfo" => cmp_pair!(u::userinfo, f),
			"iuserinfo" => cmp_pair!(i::userinfo, f),
			"uquery" => cmp_pair!(u::query, f),
			"iquery" => cmp_pair!(i::query, f),
			"ufragment" => cmp_pair!(u::fragment, f),
			"ifragment" => cmp_pair!(i::fragment, f),
			"scheme" => cmp_pair!(u::scheme, f),
			"port" => cmp_pair!(u::port, f),
			_ => panic!("kind"),
		},
		"lookup" => return lookup(f),
		"xcmp" => return xcmp(f),
		"pct" => {
			let inp = unhex(f[3]);
			macro_rules! go { ($m:ident, $c:ident) => { match $m::$c(&inp) { Some(v) => format!("{}\t~", pct_view!(v)), None => "ERR".to_string() } } }
			// the owned route: XxxBuf::into_pct_string (text must be preserved, no panic)
			macro_rules! go2 { ($m:ident, $c:ident) => { match $m::$c(&inp) { Some(v) => {
				let o = g(|| v.to_owned().into_pct_string());
				format!("{}\t{}", pct_view!(v), o.map(|p| hex(p.as_str().as_bytes())).unwrap_or("PANIC".into()))
			}, None => "ERR".to_string() } } }
			match (f[1], f[2]) {
				("uri", "userinfo") => go2!(u, userinfo), ("uri", "host") => go2!(u, host), ("uri", "segment") => go!(u, segment), ("uri", "query") => go2!(u, query), ("uri", "fragment") => go2!(u, fragment),
				("iri", "userinfo") => go2!(i, userinfo), ("iri", "host") => go2!(i, host), ("iri", "segment") => go!(i, segment), ("iri", "query") => go2!(i, query), ("iri", "fragment") => go2!(i, fragment),
				_ => panic!("pct kind"),
			}
		}
		"refpct" => {
			let inp = unhex(f[2]);
			match f[1] {
				"uri" => match u::abs(&inp) { Some(v) => refpct!(v), None => "ERR".into() },
				"uriref" => match u::rref(&inp) { Some(v) => refpct!(v), None => "ERR".into() },
				"iri" => match i::abs(&inp) { Some(v) => refpct!(v), None => "ERR".into() },
				"iriref" => match i::rref(&inp) { Some(v) => refpct!(v), None => "ERR".into() },
				_ => panic!("kind"),
			}
		}
		"conv" => conv(&unhex(f[1])),
		"dataurl" => dataurl(&unhex(f[1])),
		_ => return None,
	})
}
