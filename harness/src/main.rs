// Line-oriented harness around the public API of iref.  One case per input line (tab separated,
// byte-string arguments hex encoded, "-" = empty, "~" = absent), one result line per case.
// Every case runs under catch_unwind; a panic prints PANIC.
#![allow(unused, clippy::all)]
use std::alloc::{GlobalAlloc, Layout, System};
use std::io::{BufRead, Write};
use std::panic::{catch_unwind, AssertUnwindSafe};
use std::sync::atomic::{AtomicUsize, Ordering};

mod ops2;
mod ops3;
mod ops4;

struct Counting;
pub static ALLOCS: AtomicUsize = AtomicUsize::new(0);
unsafe impl GlobalAlloc for Counting {
	unsafe fn alloc(&self, l: Layout) -> *mut u8 {
		ALLOCS.fetch_add(1, Ordering::Relaxed);
		System.alloc(l)
	}
	unsafe fn dealloc(&self, p: *mut u8, l: Layout) {
		System.dealloc(p, l)
	}
	unsafe fn realloc(&self, p: *mut u8, l: Layout, n: usize) -> *mut u8 {
		ALLOCS.fetch_add(1, Ordering::Relaxed);
		System.realloc(p, l, n)
	}
}
#[global_allocator]
static A: Counting = Counting;
pub fn allocs() -> usize {
	ALLOCS.load(Ordering::Relaxed)
}

pub fn unhex(s: &str) -> Vec<u8> {
	if s == "-" || s == "~" {
		return vec![];
	}
	let b = s.as_bytes();
	let v = |c: u8| -> u8 {
		match c {
			b'0'..=b'9' => c - b'0',
			b'a'..=b'f' => c - b'a' + 10,
			b'A'..=b'F' => c - b'A' + 10,
			_ => panic!("hex"),
		}
	};
	(0..b.len() / 2).map(|i| v(b[2 * i]) * 16 + v(b[2 * i + 1])).collect()
}
pub fn hex(b: &[u8]) -> String {
	if b.is_empty() {
		return "-".to_string();
	}
	let mut s = String::with_capacity(b.len() * 2);
	for x in b {
		s.push_str(&format!("{:02x}", x));
	}
	s
}
pub fn ohex(b: Option<&[u8]>) -> String {
	match b {
		None => "~".to_string(),
		Some(b) => hex(b),
	}
}
pub fn opt_arg(s: &str) -> Option<Vec<u8>> {
	if s == "~" {
		None
	} else {
		Some(unhex(s))
	}
}

/// range of `part` inside `whole`, as "lo:hi"; "!" when it is not a sub-slice (copied or constant)
pub fn rng(whole: &[u8], part: &[u8]) -> String {
	let w0 = whole.as_ptr() as usize;
	let p0 = part.as_ptr() as usize;
	if p0 >= w0 && p0 + part.len() <= w0 + whole.len() {
		format!("{}:{}", p0 - w0, p0 - w0 + part.len())
	} else {
		format!("!{}", hex(part))
	}
}
pub fn orng(whole: &[u8], part: Option<&[u8]>) -> String {
	match part {
		None => "~".to_string(),
		Some(p) => rng(whole, p),
	}
}

// ------------------------------------------------------------------------------------------------
// C01 / C14: construction routes.  One character per route:
//   A accepted and text preserved, a accepted but text differs, R rejected and payload = input,
//   r rejected but payload differs, - route not applicable to this input, P panic
fn verdict<T, E>(r: Result<T, E>, input: &[u8], text: impl Fn(&T) -> Vec<u8>, payload: impl Fn(&E) -> Vec<u8>) -> char {
	match r {
		Ok(v) => {
			if text(&v) == input {
				'A'
			} else {
				'a'
			}
		}
		Err(e) => {
			if payload(&e) == input {
				'R'
			} else {
				'r'
			}
		}
	}
}
fn guard(f: impl FnOnce() -> char) -> char {
	catch_unwind(AssertUnwindSafe(f)).unwrap_or('P')
}
fn json_plain(s: &str) -> bool {
	!s.chars().any(|c| c == '"' || c == '\\' || (c as u32) < 0x20)
}

macro_rules! routes_bytes {
	($T:ty, $B:ty, $inp:expr) => {{
		use serde::de::IntoDeserializer;
		use serde::Deserialize;
		use std::str::FromStr;
		let inp: &[u8] = $inp;
		let utf8 = std::str::from_utf8(inp).ok();
		let mut o = String::new();
		o.push(guard(|| verdict(<$T>::new(inp), inp, |v| v.as_bytes().to_vec(), |e| e.0.to_vec())));
		o.push(guard(|| verdict(<$B>::new(inp.to_vec()), inp, |v| v.as_bytes().to_vec(), |e| e.0.clone())));
		o.push(guard(|| verdict(<&$T>::try_from(inp), inp, |v| v.as_bytes().to_vec(), |e| e.0.to_vec())));
		o.push(guard(|| verdict(<$B>::try_from(inp.to_vec()), inp, |v| v.as_bytes().to_vec(), |e| e.0.clone())));
		match utf8 {
			Some(s) => {
				o.push(guard(|| verdict(<&$T>::try_from(s), inp, |v| v.as_bytes().to_vec(), |e| e.0.as_bytes().to_vec())));
				o.push(guard(|| verdict(<$B>::try_from(s.to_string()), inp, |v| v.as_bytes().to_vec(), |e| e.0.as_bytes().to_vec())));
				o.push(guard(|| verdict(<$B>::from_str(s), inp, |v| v.as_bytes().to_vec(), |e| e.0.as_bytes().to_vec())));
				// serde: JSON text, owned
				let js = serde_json::to_string(s).unwrap();
				o.push(guard(|| verdict(serde_json::from_str::<$B>(&js), inp, |v| v.as_bytes().to_vec(), |_| inp.to_vec())));
				if json_plain(s) {
					o.push(guard(|| verdict(serde_json::from_str::<&$T>(&js), inp, |v| v.as_bytes().to_vec(), |_| inp.to_vec())));
				} else {
					o.push('-');
				}
				// serde: str deserializers
				o.push(guard(|| {
					let d: serde::de::value::BorrowedStrDeserializer<serde::de::value::Error> = serde::de::value::BorrowedStrDeserializer::new(s);
					verdict(<&$T>::deserialize(d), inp, |v| v.as_bytes().to_vec(), |_| inp.to_vec())
				}));
				o.push(guard(|| {
					let d: serde::de::value::StringDeserializer<serde::de::value::Error> = s.to_string().into_deserializer();
					verdict(<$B>::deserialize(d), inp, |v| v.as_bytes().to_vec(), |_| inp.to_vec())
				}));
			}
			None => o.push_str("-------"),
		}
		// serde: byte strings, borrowed and owned
		o.push(guard(|| {
			let d: serde::de::value::BorrowedBytesDeserializer<serde::de::value::Error> = serde::de::value::BorrowedBytesDeserializer::new(inp);
			verdict(<&$T>::deserialize(d), inp, |v| v.as_bytes().to_vec(), |_| inp.to_vec())
		}));
		o.push(guard(|| {
			let d: serde::de::value::BytesDeserializer<serde::de::value::Error> = serde::de::value::BytesDeserializer::new(inp);
			verdict(<$B>::deserialize(d), inp, |v| v.as_bytes().to_vec(), |_| inp.to_vec())
		}));
		o
	}};
}

macro_rules! routes_str {
	($T:ty, $B:ty, $inp:expr, $fromvec:expr) => {{
		use serde::de::IntoDeserializer;
		use serde::Deserialize;
		use std::str::FromStr;
		let inp: &[u8] = $inp;
		let utf8 = std::str::from_utf8(inp).ok();
		let mut o = String::new();
		match utf8 {
			Some(s) => {
				o.push(guard(|| verdict(<$T>::new(s), inp, |v| v.as_bytes().to_vec(), |e| e.0.as_bytes().to_vec())));
				o.push(guard(|| verdict(<$B>::new(s.to_string()), inp, |v| v.as_bytes().to_vec(), |e| e.0.as_bytes().to_vec())));
				o.push(guard(|| verdict(<&$T>::try_from(s), inp, |v| v.as_bytes().to_vec(), |e| e.0.as_bytes().to_vec())));
				o.push(guard(|| verdict(<$B>::try_from(s.to_string()), inp, |v| v.as_bytes().to_vec(), |e| e.0.as_bytes().to_vec())));
				o.push(guard(|| verdict(<$B>::from_str(s), inp, |v| v.as_bytes().to_vec(), |e| e.0.as_bytes().to_vec())));
				let js = serde_json::to_string(s).unwrap();
				o.push(guard(|| verdict(serde_json::from_str::<$B>(&js), inp, |v| v.as_bytes().to_vec(), |_| inp.to_vec())));
				if json_plain(s) {
					o.push(guard(|| verdict(serde_json::from_str::<&$T>(&js), inp, |v| v.as_bytes().to_vec(), |_| inp.to_vec())));
				} else {
					o.push('-');
				}
				o.push(guard(|| {
					let d: serde::de::value::BorrowedStrDeserializer<serde::de::value::Error> = serde::de::value::BorrowedStrDeserializer::new(s);
					verdict(<&$T>::deserialize(d), inp, |v| v.as_bytes().to_vec(), |_| inp.to_vec())
				}));
				o.push(guard(|| {
					let d: serde::de::value::StringDeserializer<serde::de::value::Error> = s.to_string().into_deserializer();
					verdict(<$B>::deserialize(d), inp, |v| v.as_bytes().to_vec(), |_| inp.to_vec())
				}));
			}
			None => o.push_str("---------"),
		}
		// from-bytes routes accept ill-formed UTF-8 as input and must reject it
		o.push(guard(|| {
			let d: serde::de::value::BorrowedBytesDeserializer<serde::de::value::Error> = serde::de::value::BorrowedBytesDeserializer::new(inp);
			verdict(<&$T>::deserialize(d), inp, |v| v.as_bytes().to_vec(), |_| inp.to_vec())
		}));
		o.push(guard(|| {
			let d: serde::de::value::BytesDeserializer<serde::de::value::Error> = serde::de::value::BytesDeserializer::new(inp);
			verdict(<$B>::deserialize(d), inp, |v| v.as_bytes().to_vec(), |_| inp.to_vec())
		}));
		o.push($fromvec(inp));
		o
	}};
}

fn no_from_vec(_: &[u8]) -> char {
	'-'
}
fn iri_from_vec(inp: &[u8]) -> char {
	guard(|| verdict(iref::IriBuf::from_vec(inp.to_vec()), inp, |v| v.as_bytes().to_vec(), |e| e.0.clone()))
}
fn iriref_from_vec(inp: &[u8]) -> char {
	guard(|| verdict(iref::IriRefBuf::from_vec(inp.to_vec()), inp, |v| v.as_bytes().to_vec(), |e| e.0.clone()))
}

fn parse(ty: &str, inp: &[u8]) -> String {
	use iref::{iri, uri};
	match ty {
		"uri" => routes_bytes!(iref::Uri, iref::UriBuf, inp),
		"uri_reference" => routes_bytes!(iref::UriRef, iref::UriRefBuf, inp),
		"scheme" => routes_bytes!(uri::Scheme, uri::SchemeBuf, inp),
		"uri_authority" => routes_bytes!(uri::Authority, uri::AuthorityBuf, inp),
		"uri_user_info" => routes_bytes!(uri::UserInfo, uri::UserInfoBuf, inp),
		"uri_host" => routes_bytes!(uri::Host, uri::HostBuf, inp),
		"uri_port" => routes_bytes!(uri::Port, uri::PortBuf, inp),
		"uri_path" => routes_bytes!(uri::Path, uri::PathBuf, inp),
		"uri_path_segment" => routes_bytes!(uri::Segment, uri::SegmentBuf, inp),
		"uri_query" => routes_bytes!(uri::Query, uri::QueryBuf, inp),
		"uri_fragment" => routes_bytes!(uri::Fragment, uri::FragmentBuf, inp),
		"iri" => routes_str!(iref::Iri, iref::IriBuf, inp, iri_from_vec),
		"iri_reference" => routes_str!(iref::IriRef, iref::IriRefBuf, inp, iriref_from_vec),
		"iri_authority" => routes_str!(iri::Authority, iri::AuthorityBuf, inp, no_from_vec),
		"iri_user_info" => routes_str!(iri::UserInfo, iri::UserInfoBuf, inp, no_from_vec),
		"iri_host" => routes_str!(iri::Host, iri::HostBuf, inp, no_from_vec),
		"iri_path" => routes_str!(iri::Path, iri::PathBuf, inp, no_from_vec),
		"iri_path_segment" => routes_str!(iri::Segment, iri::SegmentBuf, inp, no_from_vec),
		"iri_query" => routes_str!(iri::Query, iri::QueryBuf, inp, no_from_vec),
		"iri_fragment" => routes_str!(iri::Fragment, iri::FragmentBuf, inp, no_from_vec),
		_ => panic!("type"),
	}
}

// routes out of a valid value: every one must give back exactly the text
macro_rules! out_routes {
	($T:ty, $B:ty, $v:expr, $inp:expr, $tag:ident) => {{
		let v: &$T = $v;
		let inp: &[u8] = $inp;
		let s = std::str::from_utf8(inp).unwrap();
		let mut bad: Vec<&str> = vec![];
		if format!("{}", v).as_bytes() != inp { bad.push("display"); }
		if format!("{:?}", v) != format!("{:?}", s) && format!("{:?}", v) != format!("{}", s) { bad.push("debug"); }
		if v.as_str().as_bytes() != inp { bad.push("as_str"); }
		if v.as_bytes() != inp { bad.push("as_bytes"); }
		let o: $B = v.to_owned();
		if o.as_bytes() != inp { bad.push("to_owned"); }
		if format!("{}", o).as_bytes() != inp { bad.push("display_owned"); }
		let c = o.clone();
		if c.as_bytes() != inp { bad.push("clone"); }
		if c.into_string().as_bytes() != inp { bad.push("into_string"); }
		if o.clone().into_bytes() != inp { bad.push("into_bytes"); }
		if <$T as AsRef<str>>::as_ref(v).as_bytes() != inp { bad.push("asref_str"); }
		if <$T as AsRef<[u8]>>::as_ref(v) != inp { bad.push("asref_bytes"); }
		if <$B as AsRef<str>>::as_ref(&o).as_bytes() != inp { bad.push("asref_str_owned"); }
		if serde_json::to_string(v).unwrap() != serde_json::to_string(s).unwrap() { bad.push("serialize"); }
		if serde_json::to_string(&o).unwrap() != serde_json::to_string(s).unwrap() { bad.push("serialize_owned"); }
		$crate::streq!($tag, v, o, s, bad);
		if o.as_bytes() != inp { bad.push("unchanged_after"); }
		if bad.is_empty() { "ok".to_string() } else { bad.join(",") }
	}};
}

macro_rules! streq {
	(main_b, $v:ident, $o:ident, $s:ident, $bad:ident) => { streq!(@go $v, $o, $s, $bad); if !(*$v == *$s.as_bytes()) { $bad.push("eq_bytes"); } };
	(main_s, $v:ident, $o:ident, $s:ident, $bad:ident) => { streq!(@go $v, $o, $s, $bad) };
	(refstr, $v:ident, $o:ident, $s:ident, $bad:ident) => { streq!(@refstr $v, $s, $bad) };
	(upath, $v:ident, $o:ident, $s:ident, $bad:ident) => { streq!(@refstr $v, $s, $bad); if !(*$v == *$s) { $bad.push("eq_str"); } if !(*$v == $s.to_string()) { $bad.push("eq_string"); } if !(*$v == *$s.as_bytes()) { $bad.push("eq_bytes"); } };
	(ipath, $v:ident, $o:ident, $s:ident, $bad:ident) => { streq!(@refstr $v, $s, $bad); if !(*$v == *$s) { $bad.push("eq_str"); } if !(*$v == $s.to_string()) { $bad.push("eq_string"); } if !($o == *$s) { $bad.push("eq_str_owned"); } };
	(none, $v:ident, $o:ident, $s:ident, $bad:ident) => {};
	(@go $v:ident, $o:ident, $s:ident, $bad:ident) => {
		if !(*$v == *$s) { $bad.push("eq_str"); }
		if !(*$v == $s) { $bad.push("eq_refstr"); }
		if !(*$v == $s.to_string()) { $bad.push("eq_string"); }
		if !($o == *$s) { $bad.push("eq_str_owned"); }
		let mut other = $s.to_string(); other.push('x');
		if *$v == *other.as_str() { $bad.push("ne_str"); }
		if $o == other { $bad.push("ne_string_owned"); }
		let alt = if $s.contains("%41") { $s.replace("%41", "A") } else if $s.contains('A') { $s.replacen('A', "%41", 1) } else if $s.contains("%61") { $s.replace("%61", "a") } else { $s.replacen('a', "%61", 1) };
		if alt != $s && *$v == *alt.as_str() { $bad.push("eq_other_spelling"); }
		// a string that differs only in ASCII case is a different text
		let mut flipped = false;
		let alt2: String = $s.chars().map(|c| if !flipped && c.is_ascii_alphabetic() { flipped = true; if c.is_ascii_lowercase() { c.to_ascii_uppercase() } else { c.to_ascii_lowercase() } } else { c }).collect();
		if alt2 != $s && *$v == *alt2.as_str() { $bad.push("eq_other_case"); }
	};
	(@refstr $v:ident, $s:ident, $bad:ident) => {
		if !(*$v == $s) { $bad.push("eq_refstr"); }
		let mut other = $s.to_string(); other.push('x');
		if *$v == other.as_str() { $bad.push("ne_refstr"); }
		// a different spelling of the same octets is a different text
		let alt = if $s.contains("%41") { $s.replace("%41", "A") } else if $s.contains('A') { $s.replacen('A', "%41", 1) } else if $s.contains("%61") { $s.replace("%61", "a") } else { $s.replacen('a', "%61", 1) };
		if alt != $s && *$v == alt.as_str() { $bad.push("eq_other_spelling"); }
		let mut flipped = false;
		let alt2: String = $s.chars().map(|c| if !flipped && c.is_ascii_alphabetic() { flipped = true; if c.is_ascii_lowercase() { c.to_ascii_uppercase() } else { c.to_ascii_lowercase() } } else { c }).collect();
		if alt2 != $s && *$v == alt2.as_str() { $bad.push("eq_other_case"); }
	};
}
pub(crate) use streq;

fn out(ty: &str, inp: &[u8]) -> String {
	use iref::{iri, uri};
	let s = match std::str::from_utf8(inp) { Ok(s) => s, Err(_) => return "ERR".into() };
	macro_rules! b { ($T:ty, $B:ty, $tag:ident) => { match <$T>::new(inp) { Ok(v) => out_routes!($T, $B, v, inp, $tag), Err(_) => "ERR".to_string() } } }
	macro_rules! c { ($T:ty, $B:ty, $tag:ident) => { match <$T>::new(s) { Ok(v) => out_routes!($T, $B, v, inp, $tag), Err(_) => "ERR".to_string() } } }
	match ty {
		"uri" => b!(iref::Uri, iref::UriBuf, main_b),
		"uri_reference" => b!(iref::UriRef, iref::UriRefBuf, main_b),
		"scheme" => b!(uri::Scheme, uri::SchemeBuf, none),
		"uri_authority" => b!(uri::Authority, uri::AuthorityBuf, refstr),
		"uri_user_info" => b!(uri::UserInfo, uri::UserInfoBuf, refstr),
		"uri_host" => b!(uri::Host, uri::HostBuf, refstr),
		"uri_port" => b!(uri::Port, uri::PortBuf, none),
		"uri_path" => b!(uri::Path, uri::PathBuf, upath),
		"uri_path_segment" => b!(uri::Segment, uri::SegmentBuf, none),
		"uri_query" => b!(uri::Query, uri::QueryBuf, refstr),
		"uri_fragment" => b!(uri::Fragment, uri::FragmentBuf, refstr),
		"iri" => c!(iref::Iri, iref::IriBuf, main_s),
		"iri_reference" => c!(iref::IriRef, iref::IriRefBuf, main_s),
		"iri_authority" => c!(iri::Authority, iri::AuthorityBuf, refstr),
		"iri_user_info" => c!(iri::UserInfo, iri::UserInfoBuf, refstr),
		"iri_host" => c!(iri::Host, iri::HostBuf, refstr),
		"iri_path" => c!(iri::Path, iri::PathBuf, ipath),
		"iri_path_segment" => c!(iri::Segment, iri::SegmentBuf, none),
		"iri_query" => c!(iri::Query, iri::QueryBuf, refstr),
		"iri_fragment" => c!(iri::Fragment, iri::FragmentBuf, refstr),
		_ => panic!("type"),
	}
}

fn run(f: &[&str]) -> String {
	match f[0] {
		"parse" => parse(f[1], &unhex(f[2])),
		"out" => out(f[1], &unhex(f[2])),
		_ => {
			if let Some(r) = ops2::run(f) {
				return r;
			}
			if let Some(r) = ops3::run(f) {
				return r;
			}
			if let Some(r) = ops4::run(f) {
				return r;
			}
			panic!("unknown op {}", f[0])
		}
	}
}

fn main() {
	std::panic::set_hook(Box::new(|_| {}));
	let out = std::io::stdout();
	let mut out = std::io::BufWriter::new(out.lock());
	for line in std::io::stdin().lock().lines() {
		let line = line.unwrap();
		let f: Vec<&str> = line.split('\t').collect();
		let r = catch_unwind(AssertUnwindSafe(|| run(&f))).unwrap_or_else(|_| "PANIC".to_string());
		writeln!(out, "{r}").unwrap();
	}
}
