// Mutators and binary operations (filled in as properties are added).
#![allow(unused, clippy::all)]
use crate::*;

pub fn run(f: &[&str]) -> Option<String> {
	None
}
