// Mutators and binary operations: setters (C05), arbitrary edit sequences (C04), path handle (C10),
// authority handle (C11), normalisation (C09), resolution (C06), relative_to (C15), suffix/base (C16).
#![allow(unused, clippy::all)]
use crate::*;
use std::panic::{catch_unwind, AssertUnwindSafe};

pub mod u {
	use iref::uri::*;
	pub fn refbuf(b: &[u8]) -> Option<iref::UriRefBuf> { iref::UriRefBuf::new(b.to_vec()).ok() }
	pub fn absbuf(b: &[u8]) -> Option<iref::UriBuf> { iref::UriBuf::new(b.to_vec()).ok() }
	pub fn rref(b: &[u8]) -> Option<&iref::UriRef> { iref::UriRef::new(b).ok() }
	pub fn abs(b: &[u8]) -> Option<&iref::Uri> { iref::Uri::new(b).ok() }
	pub fn scheme(b: &[u8]) -> Option<&Scheme> { Scheme::new(b).ok() }
	pub fn authority(b: &[u8]) -> Option<&Authority> { Authority::new(b).ok() }
	pub fn path(b: &[u8]) -> Option<&Path> { Path::new(b).ok() }
	pub fn pathbuf(b: &[u8]) -> Option<PathBuf> { PathBuf::new(b.to_vec()).ok() }
	pub fn query(b: &[u8]) -> Option<&Query> { Query::new(b).ok() }
	pub fn fragment(b: &[u8]) -> Option<&Fragment> { Fragment::new(b).ok() }
	pub fn segment(b: &[u8]) -> Option<&Segment> { Segment::new(b).ok() }
	pub fn userinfo(b: &[u8]) -> Option<&UserInfo> { UserInfo::new(b).ok() }
	pub fn host(b: &[u8]) -> Option<&Host> { Host::new(b).ok() }
	pub fn port(b: &[u8]) -> Option<&Port> { Port::new(b).ok() }
}
pub mod i {
	use iref::iri::*;
	fn s(b: &[u8]) -> Option<&str> { std::str::from_utf8(b).ok() }
	pub fn refbuf(b: &[u8]) -> Option<iref::IriRefBuf> { iref::IriRefBuf::new(s(b)?.to_string()).ok() }
	pub fn absbuf(b: &[u8]) -> Option<iref::IriBuf> { iref::IriBuf::new(s(b)?.to_string()).ok() }
	pub fn rref(b: &[u8]) -> Option<&iref::IriRef> { iref::IriRef::new(s(b)?).ok() }
	pub fn abs(b: &[u8]) -> Option<&iref::Iri> { iref::Iri::new(s(b)?).ok() }
	pub fn scheme(b: &[u8]) -> Option<&Scheme> { Scheme::new(b).ok() }
	pub fn authority(b: &[u8]) -> Option<&Authority> { Authority::new(s(b)?).ok() }
	pub fn path(b: &[u8]) -> Option<&Path> { Path::new(s(b)?).ok() }
	pub fn pathbuf(b: &[u8]) -> Option<PathBuf> { PathBuf::new(s(b)?.to_string()).ok() }
	pub fn query(b: &[u8]) -> Option<&Query> { Query::new(s(b)?).ok() }
	pub fn fragment(b: &[u8]) -> Option<&Fragment> { Fragment::new(s(b)?).ok() }
	pub fn segment(b: &[u8]) -> Option<&Segment> { Segment::new(s(b)?).ok() }
	pub fn userinfo(b: &[u8]) -> Option<&UserInfo> { UserInfo::new(s(b)?).ok() }
	pub fn host(b: &[u8]) -> Option<&Host> { Host::new(s(b)?).ok() }
	pub fn port(b: &[u8]) -> Option<&Port> { Port::new(b).ok() }
}

// text of the buffer, whether it is well-formed UTF-8 and re-parses as the same type, and the five accessors
macro_rules! snapshot {
	($m:ident, $reparse:ident, $buf:expr) => {{
		let b = $buf;
		let bytes = b.as_bytes().to_vec();
		let valid = std::str::from_utf8(&bytes).is_ok() && $m::$reparse(&bytes).is_some();
		format!(
			"{}\t{}\t{}\t{}\t{}\t{}\t{}",
			hex(&bytes),
			valid as u8,
			ohex(sch_of!($reparse, b)),
			ohex(b.authority().map(|x| x.as_bytes())),
			hex(b.path().as_bytes()),
			ohex(b.query().map(|x| x.as_bytes())),
			ohex(b.fragment().map(|x| x.as_bytes()))
		)
	}};
}
macro_rules! sch_of {
	(refbuf, $b:expr) => { $b.scheme().map(|x| x.as_bytes()) };
	(absbuf, $b:expr) => { Some($b.scheme().as_bytes()) };
}
macro_rules! set_scheme {
	(refbuf, $m:ident, $b:expr, $v:expr) => {{ let v: &Option<Vec<u8>> = $v; $b.set_scheme(v.as_ref().map(|x| $m::scheme(x).expect("arg"))) }};
	(absbuf, $m:ident, $b:expr, $v:expr) => {{ let v: &Option<Vec<u8>> = $v; $b.set_scheme($m::scheme(v.as_ref().expect("arg")).expect("arg")) }};
}

// one mutation step on a reference buffer; op = "xx:<hex|~>" or "xx"
macro_rules! apply_op {
	($m:ident, $ctor:ident, $b:expr, $op:expr) => {{
		let op: &str = $op;
		let (code, arg) = match op.find(':') { Some(k) => (&op[..k], Some(&op[k + 1..])), None => (op, None) };
		let oarg: Option<Vec<u8>> = arg.and_then(|a| opt_arg(a));
		let barg: Vec<u8> = oarg.clone().unwrap_or_default();
		match code {
			"ss" => set_scheme!($ctor, $m, $b, &oarg),
			"sa" => $b.set_authority(oarg.as_ref().map(|x| $m::authority(x).expect("arg"))),
			"sp" => $b.set_path($m::path(&barg).expect("arg")),
			"sq" => $b.set_query(oarg.as_ref().map(|x| $m::query(x).expect("arg"))),
			"sf" => $b.set_fragment(oarg.as_ref().map(|x| $m::fragment(x).expect("arg"))),
			"au" => { if let Some(mut a) = $b.authority_mut() { a.set_userinfo(oarg.as_ref().map(|x| $m::userinfo(x).expect("arg"))) } }
			"ah" => { if let Some(mut a) = $b.authority_mut() { a.set_host($m::host(&barg).expect("arg")) } }
			"ap" => { if let Some(mut a) = $b.authority_mut() { a.set_port(oarg.as_ref().map(|x| $m::port(x).expect("arg"))) } }
			"pp" => $b.path_mut().push($m::segment(&barg).expect("arg")),
			"po" => $b.path_mut().pop(),
			"pc" => $b.path_mut().clear(),
			"ps" => $b.path_mut().symbolic_push($m::segment(&barg).expect("arg")),
			"pa" => $b.path_mut().symbolic_append($m::path(&barg).expect("arg").segments()),
			"pn" => $b.path_mut().normalize(),
			_ => panic!("op {}", code),
		}
	}};
}

// set <kind> <buf> <op>: one setter (or any single op) on a fresh buffer; snapshot before and after
macro_rules! run_ops {
	($m:ident, $ctor:ident, $f:expr, $each:expr) => {{
		let f: &[&str] = $f;
		let mut b = match $m::$ctor(&unhex(f[2])) { Some(b) => b, None => return Some("ERR".into()) };
		let mut out: Vec<String> = vec![];
		if $each { out.push(snapshot!($m, $ctor, &b)); }
		for op in &f[3..] {
			let r = catch_unwind(AssertUnwindSafe(|| { apply_op!($m, $ctor, b, op); }));
			if r.is_err() { out.push("PANIC".into()); return Some(out.join("\t|\t")); }
			if $each { out.push(snapshot!($m, $ctor, &b)); }
		}
		if !$each { out.push(snapshot!($m, $ctor, &b)); }
		out.join("\t|\t")
	}};
}

// pathops <kind> <buf> <ops..>: edits through ONE path handle; after each edit the handle's view
macro_rules! path_handle {
	($m:ident, $ctor:ident, $f:expr) => {{
		let f: &[&str] = $f;
		let mut b = match $m::$ctor(&unhex(f[2])) { Some(b) => b, None => return Some("ERR".into()) };
		let mut views: Vec<String> = vec![];
		{
			let mut p = b.path_mut();
			for op in &f[3..] {
				let (code, arg) = match op.find(':') { Some(k) => (&op[..k], Some(&op[k + 1..])), None => (*op, None) };
				let barg: Vec<u8> = arg.and_then(|a| opt_arg(a)).unwrap_or_default();
				match code {
					"pp" => p.push($m::segment(&barg).expect("arg")),
					"po" => p.pop(),
					"pc" => p.clear(),
					"ps" => p.symbolic_push($m::segment(&barg).expect("arg")),
					"pa" => p.symbolic_append($m::path(&barg).expect("arg").segments()),
					"pn" => p.normalize(),
					_ => panic!("op"),
				}
				let segs: Vec<String> = p.segments().map(|s| hex(s.as_bytes())).collect();
				views.push(format!("{}/{}", hex(p.as_bytes()), segs.join(",")));
			}
		}
		format!("{}\t|\t{}", views.join("\t"), snapshot!($m, $ctor, &b))
	}};
}
macro_rules! pathbuf_handle {
	($m:ident, $f:expr) => {{
		let f: &[&str] = $f;
		let mut b = match $m::pathbuf(&unhex(f[2])) { Some(b) => b, None => return Some("ERR".into()) };
		let mut views: Vec<String> = vec![];
		for op in &f[3..] {
			let (code, arg) = match op.find(':') { Some(k) => (&op[..k], Some(&op[k + 1..])), None => (*op, None) };
			let barg: Vec<u8> = arg.and_then(|a| opt_arg(a)).unwrap_or_default();
			match code {
				"pp" => b.push($m::segment(&barg).expect("arg")),
				"po" => b.pop(),
				"pc" => b.clear(),
				"ps" => b.symbolic_push($m::segment(&barg).expect("arg")),
				"pa" => b.symbolic_append($m::path(&barg).expect("arg").segments()),
				"pn" => b.normalize(),
				_ => panic!("op"),
			}
			let segs: Vec<String> = b.segments().map(|s| hex(s.as_bytes())).collect();
			views.push(format!("{}/{}", hex(b.as_bytes()), segs.join(",")));
		}
		let bytes = b.as_bytes().to_vec();
		let valid = std::str::from_utf8(&bytes).is_ok() && $m::path(&bytes).is_some();
		format!("{}\t|\t{}\t{}", views.join("\t"), hex(&bytes), valid as u8)
	}};
}

// authops <kind> <buf> <ops..>: edits through ONE authority handle; after each call the handle's view
macro_rules! auth_handle {
	($m:ident, $ctor:ident, $f:expr) => {{
		let f: &[&str] = $f;
		let mut b = match $m::$ctor(&unhex(f[2])) { Some(b) => b, None => return Some("ERR".into()) };
		let mut views: Vec<String> = vec![];
		let mut last: Option<Vec<u8>> = None;
		{
			let mut a = match b.authority_mut() { Some(a) => a, None => return Some("NOAUTH".into()) };
			for op in &f[3..] {
				let (code, arg) = match op.find(':') { Some(k) => (&op[..k], Some(&op[k + 1..])), None => (*op, None) };
				let oarg: Option<Vec<u8>> = arg.and_then(|a| opt_arg(a));
				let barg: Vec<u8> = oarg.clone().unwrap_or_default();
				match code {
					"au" => a.set_userinfo(oarg.as_ref().map(|x| $m::userinfo(x).expect("arg"))),
					"ah" => a.set_host($m::host(&barg).expect("arg")),
					"ap" => a.set_port(oarg.as_ref().map(|x| $m::port(x).expect("arg"))),
					_ => panic!("op"),
				}
				let v = a.as_authority();
				views.push(format!("{}/{}/{}/{}", hex(v.as_bytes()), ohex(v.user_info().map(|x| x.as_bytes())), hex(v.host().as_bytes()), ohex(v.port().map(|x| x.as_bytes()))));
			}
			last = Some(a.into_authority().as_bytes().to_vec());
		}
		format!("{}\t|\t{}\t|\t{}", views.join("\t"), ohex(last.as_deref()), snapshot!($m, $ctor, &b))
	}};
}

// norm <fam> <path>: normalized() copy, normalized_segments(), PathBuf::normalize(), idempotence
macro_rules! norm_path {
	($m:ident, $f:expr) => {{
		let f: &[&str] = $f;
		let inp = unhex(f[2]);
		let p = match $m::path(&inp) { Some(p) => p, None => return Some("ERR".into()) };
		let n = p.normalized();
		let nn = n.normalized();
		let ns: Vec<String> = p.normalized_segments().map(|s| hex(s.as_bytes())).collect();
		// the normalized-segment iterator is double-ended: backwards, and alternating front/back, it yields the same sequence
		let mut back: Vec<String> = p.normalized_segments().rev().map(|s| hex(s.as_bytes())).collect();
		back.reverse();
		let (mut fr, mut bk) = (Vec::new(), Vec::new());
		let mut it = p.normalized_segments(); let mut turn = true;
		loop {
			let x = if turn { it.next() } else { it.next_back() };
			match x { Some(sg) => if turn { fr.push(hex(sg.as_bytes())) } else { bk.push(hex(sg.as_bytes())) }, None => break }
			turn = !turn;
		}
		bk.reverse(); fr.extend(bk);
		let de_ok = back == ns && fr == ns;
		let mut pb = $m::pathbuf(&inp).unwrap();
		pb.normalize();
		let once = pb.as_bytes().to_vec();
		pb.normalize();
		format!("{}\t{}\t{}\t{}\t{}\t{}\t{}\t{}", hex(n.as_bytes()), $m::path(n.as_bytes()).is_some() as u8, hex(nn.as_bytes()), ns.join(","), hex(&once),
			$m::path(&once).is_some() as u8, hex(pb.as_bytes()), de_ok as u8)
	}};
}

// resolve <fam> <base> <ref>: by-reference, in-place and by-value entry points
macro_rules! resolve3 {
	($m:ident, $f:expr) => {{
		let f: &[&str] = $f;
		let bb = unhex(f[2]); let rb = unhex(f[3]);
		let base = match $m::abs(&bb) { Some(b) => b, None => return Some("ERR-base".into()) };
		let r = match $m::rref(&rb) { Some(r) => r, None => return Some("ERR-ref".into()) };
		let a = catch_unwind(AssertUnwindSafe(|| r.resolved(base).as_bytes().to_vec()));
		let b = catch_unwind(AssertUnwindSafe(|| { let mut x = $m::refbuf(&rb).unwrap(); x.resolve(base); x.as_bytes().to_vec() }));
		let c = catch_unwind(AssertUnwindSafe(|| $m::refbuf(&rb).unwrap().into_resolved(base).as_bytes().to_vec()));
		let show = |x: &std::thread::Result<Vec<u8>>| match x { Ok(v) => hex(v), Err(_) => "PANIC".to_string() };
		let valid = match &a { Ok(v) => (std::str::from_utf8(v).is_ok() && $m::abs(v).is_some()) as u8, Err(_) => 0 };
		format!("{}\t{}\t{}\t{}\t{}\t{}", show(&a), show(&b), show(&c), valid, (base.as_bytes() == &bb[..]) as u8, (r.as_bytes() == &rb[..]) as u8)
	}};
}

// relto <fam> <a> <b>: a.relative_to(b), its validity, resolved back against b, and == a
macro_rules! relto {
	($m:ident, $f:expr) => {{
		let f: &[&str] = $f;
		let ab = unhex(f[2]); let bb = unhex(f[3]);
		let a = match $m::abs(&ab) { Some(x) => x, None => return Some("ERR-a".into()) };
		let b = match $m::abs(&bb) { Some(x) => x, None => return Some("ERR-b".into()) };
		let r = a.relative_to(b);
		let rv = r.as_bytes().to_vec();
		let valid = std::str::from_utf8(&rv).is_ok() && $m::rref(&rv).is_some();
		let back = catch_unwind(AssertUnwindSafe(|| r.resolved(b).as_bytes().to_vec()));
		let (backs, eq) = match &back { Ok(v) => (hex(v), match $m::abs(v) { Some(x) => (catch_unwind(AssertUnwindSafe(|| x == a)).map(|e| e as u8 + 48).unwrap_or(b'P') as char).to_string(), None => "X".into() }), Err(_) => ("PANIC".to_string(), "P".to_string()) };
		// same through the reference types
		let r2 = a.as_iri_ref_like().relative_to(b.as_iri_ref_like());
		format!("{}\t{}\t{}\t{}\t{}\t{}", hex(&rv), valid as u8, backs, eq, (r2.as_bytes() == &rv[..]) as u8, (a.as_bytes() == &ab[..] && b.as_bytes() == &bb[..]) as u8)
	}};
}
trait RefLike { type R: ?Sized; fn as_iri_ref_like(&self) -> &Self::R; }
impl RefLike for iref::Uri { type R = iref::UriRef; fn as_iri_ref_like(&self) -> &iref::UriRef { self.as_uri_ref() } }
impl RefLike for iref::Iri { type R = iref::IriRef; fn as_iri_ref_like(&self) -> &iref::IriRef { self.as_iri_ref() } }

// suffix <fam> <a> <prefix> ; base <fam> <a> ; psuffix <fam> <path> <prefix>
macro_rules! suffix_ops {
	($m:ident, $f:expr) => {{
		let f: &[&str] = $f;
		match f[0] {
			"suffix" => {
				let ab = unhex(f[2]); let pb = unhex(f[3]);
				let a = match $m::rref(&ab) { Some(x) => x, None => return Some("ERR-a".into()) };
				let p = match $m::rref(&pb) { Some(x) => x, None => return Some("ERR-p".into()) };
				let r1 = match a.suffix(p) { None => "NONE".to_string(), Some((s, q, fr)) => format!("{}\t{}\t{}\t{}", hex(s.as_bytes()), $m::path(s.as_bytes()).is_some() as u8, ohex(q.map(|x| x.as_bytes())), ohex(fr.map(|x| x.as_bytes()))) };
				// the same through Uri/Iri when both have a scheme
				let r2 = match ($m::abs(&ab), $m::abs(&pb)) { (Some(x), Some(y)) => match x.suffix(y) { None => "NONE".to_string(), Some((s, q, fr)) => format!("{}\t{}\t{}\t{}", hex(s.as_bytes()), $m::path(s.as_bytes()).is_some() as u8, ohex(q.map(|x| x.as_bytes())), ohex(fr.map(|x| x.as_bytes()))) }, _ => "-".to_string() };
				format!("{}\t|\t{}", r1, r2)
			}
			"psuffix" => {
				let ab = unhex(f[2]); let pb = unhex(f[3]);
				let a = match $m::path(&ab) { Some(x) => x, None => return Some("ERR-a".into()) };
				let p = match $m::path(&pb) { Some(x) => x, None => return Some("ERR-p".into()) };
				match a.suffix(p) { None => "NONE".to_string(), Some(s) => format!("{}\t{}", hex(s.as_bytes()), $m::path(s.as_bytes()).is_some() as u8) }
			}
			"base" => {
				let ab = unhex(f[2]);
				let a = match $m::rref(&ab) { Some(x) => x, None => return Some("ERR-a".into()) };
				let a0 = allocs();
				let b = a.base();
				let a1 = allocs();
				let bv = b.as_bytes();
				let r2 = match $m::abs(&ab) { Some(x) => { let y = x.base(); format!("{}\t{}", rng(&ab, y.as_bytes()), $m::abs(y.as_bytes()).is_some() as u8) } None => "-".to_string() };
				format!("{}\t{}\t{}\t{}\t|\t{}", rng(&ab, bv), $m::rref(bv).is_some() as u8, (b.query().is_none() && b.fragment().is_none()) as u8, a1 - a0, r2)
			}
			_ => unreachable!(),
		}
	}};
}

// refnorm <kind> <ref>: path_mut().normalize() inside a reference, twice (idempotence)
macro_rules! refnorm {
	($m:ident, $ctor:ident, $f:expr) => {{
		let f: &[&str] = $f;
		let mut b = match $m::$ctor(&unhex(f[2])) { Some(b) => b, None => return Some("ERR".into()) };
		let before = snapshot!($m, $ctor, &b);
		b.path_mut().normalize();
		let once = snapshot!($m, $ctor, &b);
		b.path_mut().normalize();
		let twice = snapshot!($m, $ctor, &b);
		format!("{}\t|\t{}\t|\t{}", before, once, twice)
	}};
}

pub fn run(f: &[&str]) -> Option<String> {
	Some(match f[0] {
		"ops" | "set" => {
			let each = f[0] == "set" || true;
			match f[1] {
				"uriref" => run_ops!(u, refbuf, f, each),
				"uri" => run_ops!(u, absbuf, f, each),
				"iriref" => run_ops!(i, refbuf, f, each),
				"iri" => run_ops!(i, absbuf, f, each),
				_ => panic!("kind"),
			}
		}
		"pathops" => match f[1] {
			"uriref" => path_handle!(u, refbuf, f),
			"uri" => path_handle!(u, absbuf, f),
			"iriref" => path_handle!(i, refbuf, f),
			"iri" => path_handle!(i, absbuf, f),
			"upath" => pathbuf_handle!(u, f),
			"ipath" => pathbuf_handle!(i, f),
			_ => panic!("kind"),
		},
		"authops" => match f[1] {
			"uriref" => auth_handle!(u, refbuf, f),
			"uri" => auth_handle!(u, absbuf, f),
			"iriref" => auth_handle!(i, refbuf, f),
			"iri" => auth_handle!(i, absbuf, f),
			_ => panic!("kind"),
		},
		"norm" => match f[1] { "uri" => norm_path!(u, f), "iri" => norm_path!(i, f), _ => panic!("fam") },
		"refnorm" => match f[1] {
			"uriref" => refnorm!(u, refbuf, f),
			"uri" => refnorm!(u, absbuf, f),
			"iriref" => refnorm!(i, refbuf, f),
			"iri" => refnorm!(i, absbuf, f),
			_ => panic!("kind"),
		},
		"resolve" => match f[1] { "uri" => resolve3!(u, f), "iri" => resolve3!(i, f), _ => panic!("fam") },
		"relto" => match f[1] { "uri" => relto!(u, f), "iri" => relto!(i, f), _ => panic!("fam") },
		"suffix" | "psuffix" | "base" => match f[1] { "uri" => suffix_ops!(u, f), "iri" => suffix_ops!(i, f), _ => panic!("fam") },
		_ => return None,
	})
}
